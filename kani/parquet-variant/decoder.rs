// Kani contract harnesses for /repo/parquet-variant/src/decoder.rs (child module: sees private items via super::)
use super::*;
#[path = "/verif/kani/support/spec.rs"]
mod spec;
use spec::*;

// ---------------------------------------------------------------------------------------------
// C08: every primitive decoder of the Variant binary format on ARBITRARY bytes (fixed 20-byte array,
// symbolic length n <= 20, so every "too short" and "longer than needed" case is included).
// Contract shape: never panics; Ok(v) => v is the little-endian value of the declared width at the
// declared offset and any returned slice is a sub-slice of the input (same memory); Err exactly when
// the input is too short.
// Stubs (listed per harness): alloc::fmt::format (error text), and for the string decoders
// simdutf8::{basic,compat}::from_utf8 — runtime CPU dispatch (inline asm) is unsupported by Kani; they are
// replaced by a validator that answers NONDETERMINISTICALLY (nothing is assumed about which byte
// strings are UTF-8; validation itself is a trusted dependency).
// ---------------------------------------------------------------------------------------------

fn any_input<const N: usize>() -> ([u8; N], usize) {
    let a: [u8; N] = kani::any();
    let n: usize = kani::any();
    kani::assume(n <= N);
    (a, n)
}

/// little-endian value of `w` bytes (w <= 16) at `at`, zero-extended, checked bit by bit by the caller
fn le_bit(buf: &[u8], at: usize, j: usize) -> bool {
    bit(buf, at * 8 + j)
}

fn stub_basic_from_utf8(input: &[u8]) -> Result<&str, simdutf8::basic::Utf8Error> {
    if kani::any() {
        // SAFETY (harness only): nobody decodes characters of this &str in the code under contract
        Ok(unsafe { core::str::from_utf8_unchecked(input) })
    } else {
        Err(simdutf8::basic::Utf8Error {})
    }
}
fn stub_compat_from_utf8(_input: &[u8]) -> Result<&str, simdutf8::compat::Utf8Error> {
    // only reached on the error path, where the code calls `.unwrap_err()` and formats the error
    Err(unsafe { core::mem::zeroed::<simdutf8::compat::Utf8Error>() })
}

// Contract (C08): get_basic_type(h) is the 2-bit field h & 3 (0 Primitive, 1 ShortString, 2 Object, 3 Array)
// for all 256 headers — the `unreachable!` arm is unreachable. get_primitive_type(h) is Ok(t) with t's
// discriminant = h >> 2 exactly when h >> 2 <= 20 (the 21 types of the specification), otherwise Err.
// OffsetSizeBytes::try_new(x) is Ok(width x + 1) exactly when x <= 3.
// Stub: alloc::fmt::format.
// @unit name=variant_header_fields props=C08 kind=complete fns=get_basic_type,get_primitive_type,VariantPrimitiveType::try_from,OffsetSizeBytes::try_new
#[kani::proof]
#[kani::stub(alloc::fmt::format, stub_format)]
fn variant_header_fields() {
    let h: u8 = kani::any();
    assert!(get_basic_type(h) as u8 == h % 4);
    let p = get_primitive_type(h);
    assert!(p.is_ok() == (h / 4 <= 20));
    if let Ok(t) = &p {
        assert!(*t as u8 == h / 4);
    }
    let o = OffsetSizeBytes::try_new(h);
    assert!(o.is_ok() == (h <= 3));
    if let Ok(s) = &o {
        assert!(*s as u8 == h + 1);
    }
    kani::cover!(h == 0x50 && p.is_ok()); // Uuid
    kani::cover!(h / 4 == 21);
    kani::cover!(h == 3);
    std::mem::forget(p);
    std::mem::forget(o);
}

// Contract (C08): unpack_u32_at_offset(bytes, byte_offset, index) for every width 1..=4, ARBITRARY
// usize offset and index: with start = byte_offset + index*width computed exactly (128-bit on the spec
// side), the result is Ok(v) exactly when start + width <= bytes.len() — in particular Err, not a wrap-around
// or panic, when the arithmetic overflows usize — and v is then the little-endian unsigned value of the
// `width` bytes at `start`, zero-extended to 32 bits. unpack_u32(bytes, i) is the same with byte_offset 0.
// Stub: alloc::fmt::format.
fn unpack_u32_contract<const N: usize>() {
    let (a, n) = any_input::<N>();
    let w: u8 = kani::any();
    kani::assume(w <= 3);
    let sz = match OffsetSizeBytes::try_new(w) {
        Ok(s) => s,
        Err(_) => {
            assert!(false);
            return;
        }
    };
    let width = w as u128 + 1;
    let off: usize = kani::any();
    let idx: usize = kani::any();
    let plain: bool = kani::any();
    let r = if plain {
        kani::assume(off == 0);
        sz.unpack_u32(&a[..n], idx)
    } else {
        sz.unpack_u32_at_offset(&a[..n], off, idx)
    };
    let start = off as u128 + idx as u128 * width;
    let fits = start + width <= n as u128;
    assert!(r.is_ok() == fits);
    if let Ok(v) = &r {
        let j: usize = kani::any();
        kani::assume(j < 32);
        assert!(((*v >> j) & 1 == 1) == (j < 8 * width as usize && le_bit(&a, start as usize, j)));
    }
    kani::cover!(r.is_ok() && w == 2 && off == 1 && idx == 2);
    kani::cover!(r.is_ok() && w == 3 && start as usize + 4 == n && n == N);
    kani::cover!(r.is_err() && idx == usize::MAX);
    kani::cover!(r.is_err() && off == usize::MAX && idx == 1);
    kani::cover!(r.is_err() && start + width == n as u128 + 1);
    kani::cover!(plain && r.is_ok() && idx == 3);
    std::mem::forget(r);
}

// NOT CONFIRMED: all 2555 checks passed in 217 s; one cover was unsatisfiable at 12 bytes and has been corrected, not re-run
// @unit name=variant_unpack_u32_12 props=C08 kind=bounded bound=bytes<=12 fns=OffsetSizeBytes::unpack_u32_at_offset,OffsetSizeBytes::unpack_u32,array_from_slice,slice_from_slice_at_offset tier=thorough timeout=900 mem=3
#[kani::proof]
#[kani::unwind(6)]
#[kani::stub(alloc::fmt::format, stub_format)]
fn variant_unpack_u32_12() {
    unpack_u32_contract::<12>()
}
// @unit name=variant_unpack_u32_20 props=C08 kind=bounded bound=bytes<=20 fns=OffsetSizeBytes::unpack_u32_at_offset,OffsetSizeBytes::unpack_u32,array_from_slice,slice_from_slice_at_offset tier=thorough timeout=900 mem=4
#[kani::proof]
#[kani::unwind(6)]
#[kani::stub(alloc::fmt::format, stub_format)]
fn variant_unpack_u32_20() {
    unpack_u32_contract::<20>()
}

// Contract (C08): map_bytes_to_offsets(buffer, width) yields exactly floor(len / width) values, the i-th
// being the little-endian unsigned value of bytes [i*width, (i+1)*width) — trailing bytes that do not
// fill a value are ignored; never panics.
// @unit name=variant_map_bytes_to_offsets props=C08 kind=bounded bound=buffer<=12_bytes fns=map_bytes_to_offsets tier=quick timeout=480 mem=3
#[kani::proof]
#[kani::unwind(14)]
#[kani::stub(alloc::fmt::format, stub_format)]
fn variant_map_bytes_to_offsets() {
    let (a, n) = any_input::<12>();
    let w: u8 = kani::any();
    kani::assume(w <= 3);
    let sz = match OffsetSizeBytes::try_new(w) {
        Ok(s) => s,
        Err(_) => return,
    };
    let width = w as usize + 1;
    let mut it = map_bytes_to_offsets(&a[..n], sz);
    let mut i = 0usize;
    let j: usize = kani::any();
    kani::assume(j < 64);
    while let Some(v) = it.next() {
        assert!((i + 1) * width <= n);
        assert!(((v >> j) & 1 == 1) == (j < 8 * width && le_bit(&a, i * width, j)));
        i += 1;
    }
    assert!(i * width <= n && (i + 1) * width > n);
    kani::cover!(i == 12);
    kani::cover!(i == 2 && width == 4 && n == 11);
    kani::cover!(i == 0 && n == 2);
}

// Contract (C08): the fixed-width scalar decoders. decode_intN / decode_float / decode_double return
// Ok(v) exactly when at least W bytes are present, v being the little-endian value of the first W bytes
// (two's complement for integers, IEEE bit pattern for floats; extra bytes ignored); decode_decimalN
// need 1 + W bytes: scale = byte 0, unscaled integer = little-endian bytes 1..=W. Err (never a panic)
// on shorter input.
macro_rules! fixed_decoder {
    ($name:ident, $f:ident, $w:expr, |$v:ident| $bits:expr) => {
        #[kani::proof]
        #[kani::unwind(6)]
        #[kani::stub(alloc::fmt::format, stub_format)]
        fn $name() {
            let (a, n) = any_input::<20>();
            let r = $f(&a[..n]);
            assert!(r.is_ok() == (n >= $w));
            if let Ok($v) = &r {
                let image: u128 = $bits;
                let j: usize = kani::any();
                kani::assume(j < 128);
                assert!(((image >> j) & 1 == 1) == (j < 8 * $w && bit(&a, j)));
            }
            kani::cover!(r.is_ok() && n == $w);
            kani::cover!(r.is_ok() && n == 20);
            kani::cover!(r.is_err() && n + 1 == $w);
            std::mem::forget(r);
        }
    };
}
// @unit name=variant_decode_int8 props=C08 kind=complete fns=decode_int8
fixed_decoder!(variant_decode_int8, decode_int8, 1, |v| *v as u8 as u128);
// @unit name=variant_decode_int16 props=C08 kind=complete fns=decode_int16
fixed_decoder!(variant_decode_int16, decode_int16, 2, |v| *v as u16 as u128);
// @unit name=variant_decode_int32 props=C08 kind=complete fns=decode_int32
fixed_decoder!(variant_decode_int32, decode_int32, 4, |v| *v as u32 as u128);
// @unit name=variant_decode_int64 props=C08 kind=complete fns=decode_int64
fixed_decoder!(variant_decode_int64, decode_int64, 8, |v| *v as u64 as u128);
// @unit name=variant_decode_float props=C08 kind=complete fns=decode_float
fixed_decoder!(variant_decode_float, decode_float, 4, |v| v.to_bits() as u128);
// @unit name=variant_decode_double props=C08 kind=complete fns=decode_double
fixed_decoder!(variant_decode_double, decode_double, 8, |v| v.to_bits() as u128);
// (scale, integer) packed as the spec lays them out: byte 0 = scale, bytes 1.. = integer
// @unit name=variant_decode_decimal4 props=C08 kind=complete fns=decode_decimal4
fixed_decoder!(variant_decode_decimal4, decode_decimal4, 5, |v| (v.1 as u128) | ((v.0 as u32 as u128) << 8));
// @unit name=variant_decode_decimal8 props=C08 kind=complete fns=decode_decimal8
fixed_decoder!(variant_decode_decimal8, decode_decimal8, 9, |v| (v.1 as u128) | ((v.0 as u64 as u128) << 8));

// decimal16 is 17 bytes = 136 bits: checked in two parts
// @unit name=variant_decode_decimal16 props=C08 kind=complete fns=decode_decimal16
#[kani::proof]
#[kani::unwind(6)]
#[kani::stub(alloc::fmt::format, stub_format)]
fn variant_decode_decimal16() {
    let (a, n) = any_input::<20>();
    let r = decode_decimal16(&a[..n]);
    assert!(r.is_ok() == (n >= 17));
    if let Ok((int, scale)) = &r {
        assert!(*scale == a[0]);
        let j: usize = kani::any();
        kani::assume(j < 128);
        assert!(((*int as u128 >> j) & 1 == 1) == bit(&a, 8 + j));
    }
    kani::cover!(r.is_ok() && n == 17);
    kani::cover!(r.is_err() && n == 16);
    kani::cover!(matches!(r, Ok((x, _)) if x < 0));
    std::mem::forget(r);
}

// Contract (C08) — EXPECTED TO FAIL ON THE UNCHANGED TREE (finding F3). decode_uuid on arbitrary bytes:
// Ok(u) exactly when at least 16 bytes are present, u being those 16 bytes (big-endian UUID field order as
// the specification says); Err — never a panic — on shorter input, like every sibling decoder.
// Failing obligation on the unchanged code: slice index `data[0..16]` out of range (decoder.rs:341) for
// every input shorter than 16 bytes; reachable from Variant::try_new (see REPORT).
// Stub: alloc::fmt::format.
// @unit name=decode_uuid_total props=C08 kind=complete fns=decode_uuid
#[kani::proof]
#[kani::unwind(18)]
#[kani::stub(alloc::fmt::format, stub_format)]
fn decode_uuid_total() {
    let (a, n) = any_input::<20>();
    let r = decode_uuid(&a[..n]);
    assert!(r.is_ok() == (n >= 16));
    if let Ok(u) = &r {
        let i: usize = kani::any();
        kani::assume(i < 16);
        assert!(u.as_bytes()[i] == a[i]);
    }
    kani::cover!(r.is_ok() && n == 16);
    kani::cover!(r.is_ok() && n == 20);
    std::mem::forget(r);
}

// Contract (C08): the same decoder under its implicit precondition n >= 16 (passes on the unchanged tree):
// always Ok, bytes preserved in order.
// @unit name=variant_decode_uuid_ge16 props=C08 kind=complete fns=decode_uuid
#[kani::proof]
#[kani::unwind(18)]
#[kani::stub(alloc::fmt::format, stub_format)]
fn variant_decode_uuid_ge16() {
    let (a, n) = any_input::<20>();
    kani::assume(n >= 16);
    let r = decode_uuid(&a[..n]);
    assert!(r.is_ok());
    if let Ok(u) = &r {
        let i: usize = kani::any();
        kani::assume(i < 16);
        assert!(u.as_bytes()[i] == a[i]);
    }
    kani::cover!(n == 16);
    std::mem::forget(r);
}

// Contract (C08): decode_binary: the first 4 bytes are a little-endian u32 length L; Ok(s) exactly when
// 4 + L <= n (no wrap-around for huge L), and s is then the sub-slice input[4 .. 4+L] itself (same
// memory); Err on shorter input.
// Stub: alloc::fmt::format.
// @unit name=variant_decode_binary props=C08 kind=bounded bound=input<=20_bytes fns=decode_binary,slice_from_slice_at_offset,slice_from_slice tier=quick timeout=480 mem=3
#[kani::proof]
#[kani::unwind(6)]
#[kani::stub(alloc::fmt::format, stub_format)]
fn variant_decode_binary() {
    let (a, n) = any_input::<20>();
    let r = decode_binary(&a[..n]);
    let l = (a[0] as u64) | (a[1] as u64) << 8 | (a[2] as u64) << 16 | (a[3] as u64) << 24;
    let fits = n >= 4 && 4 + l <= n as u64;
    assert!(r.is_ok() == fits);
    if let Ok(s) = &r {
        assert!(s.len() as u64 == l && s.as_ptr() == a[4..].as_ptr());
    }
    kani::cover!(r.is_ok() && l == 16);
    kani::cover!(r.is_ok() && l == 0 && n == 4);
    kani::cover!(r.is_err() && n >= 4 && l == u32::MAX as u64);
    kani::cover!(r.is_err() && n == 3);
    std::mem::forget(r);
}

// Contract (C08): decode_long_string: as decode_binary, plus the bytes must pass the UTF-8 validator;
// Ok(s) => s is input[4 .. 4+L] (same memory); out-of-bounds length => Err regardless of the validator.
// decode_short_string(header, data): L = header >> 2 (0..=63); Ok(s) => L <= n and s is input[0..L];
// L > n => Err. Never a panic.
// Stubs: alloc::fmt::format; simdutf8::basic::from_utf8 and simdutf8::compat::from_utf8 by a
// nondeterministic validator (see file header).
// @unit name=variant_decode_strings props=C08 kind=bounded bound=input<=20_bytes fns=decode_long_string,decode_short_string,string_from_slice,ShortString::try_new tier=quick timeout=480 mem=3
#[kani::proof]
#[kani::unwind(6)]
#[kani::stub(alloc::fmt::format, stub_format)]
#[kani::stub(simdutf8::basic::from_utf8, stub_basic_from_utf8)]
#[kani::stub(simdutf8::compat::from_utf8, stub_compat_from_utf8)]
fn variant_decode_strings() {
    let (a, n) = any_input::<20>();
    if kani::any() {
        let r = decode_long_string(&a[..n]);
        let l = (a[0] as u64) | (a[1] as u64) << 8 | (a[2] as u64) << 16 | (a[3] as u64) << 24;
        let fits = n >= 4 && 4 + l <= n as u64;
        if let Ok(s) = &r {
            assert!(fits);
            assert!(s.len() as u64 == l && s.as_ptr() == a[4..].as_ptr());
        }
        assert!(fits || r.is_err());
        kani::cover!(r.is_ok() && l == 16);
        kani::cover!(r.is_err() && fits); // validator said no
        kani::cover!(r.is_err() && !fits && n >= 4);
        std::mem::forget(r);
    } else {
        let h: u8 = kani::any();
        let r = decode_short_string(h, &a[..n]);
        let l = (h / 4) as usize;
        if let Ok(s) = &r {
            assert!(l <= n);
            assert!(s.as_str().len() == l && s.as_str().as_ptr() == a.as_ptr());
        }
        assert!(l <= n || r.is_err());
        kani::cover!(r.is_ok() && l == 20);
        kani::cover!(r.is_ok() && l == 0);
        kani::cover!(r.is_err() && l == 63);
        std::mem::forget(r);
    }
}

// Contract (C08): decode_time_ntz: 8-byte little-endian unsigned microseconds since midnight; Ok exactly
// when 8 bytes are present and the value is < 86_400_000_000 (one day); the NaiveTime then has exactly
// that many microseconds since midnight (seconds*10^9 + nanos = micros*10^3). Never panics.
// Stub: alloc::fmt::format.
// @unit name=variant_decode_time_ntz props=C08 kind=complete fns=decode_time_ntz tier=thorough timeout=900 mem=6
#[kani::proof]
#[kani::unwind(6)]
#[kani::stub(alloc::fmt::format, stub_format)]
fn variant_decode_time_ntz() {
    use chrono::Timelike;
    let (a, n) = any_input::<10>();
    let r = decode_time_ntz(&a[..n]);
    let us = u64::from_le_bytes([a[0], a[1], a[2], a[3], a[4], a[5], a[6], a[7]]);
    assert!(r.is_ok() == (n >= 8 && us < 86_400_000_000));
    if let Ok(t) = &r {
        // (no second 64-bit division on the spec side: seconds and sub-second part are checked by
        // multiplication only)
        let secs = t.num_seconds_from_midnight() as u64;
        let nanos = t.nanosecond() as u64;
        assert!(secs < 86_400 && nanos < 1_000_000_000);
        assert!(secs * 1_000_000_000 + nanos == us * 1_000);
    }
    kani::cover!(r.is_ok() && us == 86_399_999_999);
    kani::cover!(r.is_err() && n >= 8 && us == 86_400_000_000);
    kani::cover!(r.is_err() && n == 7);
    std::mem::forget(r);
}

// Contract (C08) — FAILS ON THE UNCHANGED TREE (new finding F5). decode_date on arbitrary bytes: returns
// (Ok or Err), never panics; Err when fewer than 4 bytes. On the unchanged code
// `DateTime::UNIX_EPOCH + Duration::days(d)` panics ("`DateTime + TimeDelta` overflowed") for every
// day count outside chrono's range (|d| beyond about 95.7 million days, e.g. d = i32::MAX); reachable from
// Variant::try_new (see REPORT for the native reproduction).
// Stub: alloc::fmt::format.
// @unit name=decode_date_total props=C08 kind=complete fns=decode_date tier=thorough timeout=900 mem=6
#[kani::proof]
#[kani::unwind(6)]
#[kani::stub(alloc::fmt::format, stub_format)]
fn decode_date_total() {
    let (a, n) = any_input::<6>();
    let r = decode_date(&a[..n]);
    assert!(n >= 4 || r.is_err());
    kani::cover!(r.is_ok());
    kani::cover!(r.is_err());
    std::mem::forget(r);
}

// Contract (C08): the 8-byte timestamp decoders on arbitrary bytes: Err when fewer than 8 bytes are present,
// never a panic for any of the 2^64 values (decode_timestamp_micros/decode_timestampntz_micros may
// additionally reject values outside chrono's range; the nanosecond forms accept every i64).
// Stub: alloc::fmt::format.
// @unit name=variant_decode_timestamps props=C08 kind=complete fns=decode_timestamp_micros,decode_timestampntz_micros,decode_timestamp_nanos,decode_timestampntz_nanos tier=thorough timeout=900 mem=6
#[kani::proof]
#[kani::unwind(6)]
#[kani::stub(alloc::fmt::format, stub_format)]
fn variant_decode_timestamps() {
    let (a, n) = any_input::<10>();
    let which: u8 = kani::any();
    let ok = match which {
        0 => {
            let r = decode_timestamp_micros(&a[..n]);
            let ok = r.is_ok();
            std::mem::forget(r);
            ok
        }
        1 => {
            let r = decode_timestampntz_micros(&a[..n]);
            let ok = r.is_ok();
            std::mem::forget(r);
            ok
        }
        2 => {
            let r = decode_timestamp_nanos(&a[..n]);
            let ok = r.is_ok();
            assert!(ok == (n >= 8));
            std::mem::forget(r);
            ok
        }
        _ => {
            let r = decode_timestampntz_nanos(&a[..n]);
            let ok = r.is_ok();
            assert!(ok == (n >= 8));
            std::mem::forget(r);
            ok
        }
    };
    assert!(n >= 8 || !ok);
    kani::cover!(which == 0 && ok);
    kani::cover!(which == 0 && !ok && n >= 8);
    kani::cover!(which == 3 && ok);
}
