// Kani contract harnesses for /repo/arrow-array/src/temporal_conversions.rs (child module: sees private items via super::)
