// Kani contract harnesses for /repo/arrow-array/src/temporal_conversions.rs (child module: sees private items via super::)
use super::*;

// Contract (C13, temporal unit conversions: "representable values are preserved exactly"): for EVERY v: i64
// (negative values included) and base in {10^3, 10^6, 10^9} (one harness per base: the divisor is a
// constant), split_second(v, base) == (q, r) with
//     q * base + r == v   (mathematical integers, i128)      and      0 <= r < base      (euclidean),
// so the pair recombines to the input and the sub-second part is never negative; no overflow, no panic.
// The chrono-based functions of this file (DateTime::from_timestamp, NaiveTime, Duration) are not covered.
macro_rules! split_unit {
    ($name:ident, $base:expr) => {
        #[kani::proof]
        fn $name() {
            let v: i64 = kani::any();
            let (q, r) = split_second(v, $base);
            assert!((q as i128) * ($base as i128) + (r as i128) == v as i128);
            assert!((r as i64) < $base);
            kani::cover!(v < 0 && r > 0);
            kani::cover!(v < 0 && r == 0 && q < 0);
            kani::cover!(v == i64::MIN);
            kani::cover!(v == i64::MAX);
        }
    };
}
// measured 1183 s at machine load ~70 (64-bit division by a constant): thorough
// @unit name=split_second_millis props=C13 kind=complete fns=split_second timeout=1500 mem=3 tier=thorough
split_unit!(split_second_millis, MILLISECONDS);
// NOT CONFIRMED under load (never seen to finish on the shared machine, load 40-75): keep tier=thorough until re-measured
// @unit name=split_second_micros props=C13 kind=complete fns=split_second timeout=1500 mem=3 tier=thorough
split_unit!(split_second_micros, MICROSECONDS);
// NOT CONFIRMED under load (never seen to finish on the shared machine, load 40-75): keep tier=thorough until re-measured
// @unit name=split_second_nanos props=C13 kind=complete fns=split_second timeout=1500 mem=3 tier=thorough
split_unit!(split_second_nanos, NANOSECONDS);

// Contract (C13): the unit constants are the exact ratios the casts multiply / divide by, and the
// day-based ones are exact products (no truncation): date32 -> date64 multiplies by 86_400_000.
// @unit name=temporal_constants props=C13 kind=complete fns=SECONDS_IN_DAY,MILLISECONDS_IN_DAY,MICROSECONDS_IN_DAY,NANOSECONDS_IN_DAY timeout=60
#[kani::proof]
fn temporal_constants() {
    assert!(MILLISECONDS == 1_000 && MICROSECONDS == 1_000_000 && NANOSECONDS == 1_000_000_000);
    assert!(SECONDS_IN_DAY == 24 * 60 * 60);
    assert!(MILLISECONDS_IN_DAY == 86_400_000 && MICROSECONDS_IN_DAY == 86_400_000_000 && NANOSECONDS_IN_DAY == 86_400_000_000_000);
    // every Date32 value converts to Date64 (milliseconds) without overflow
    let d: i32 = kani::any();
    let ms = (d as i128) * (MILLISECONDS_IN_DAY as i128);
    assert!(ms >= i64::MIN as i128 && ms <= i64::MAX as i128);
    kani::cover!(d == i32::MIN);
}
