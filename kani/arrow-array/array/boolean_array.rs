// Kani contract harnesses for /repo/arrow-array/src/array/boolean_array.rs (child module: sees private items via super::)
use super::*;
#[path = "/verif/kani/support/spec.rs"]
mod spec;
use spec::*;
use arrow_buffer::Buffer;

/// number of cleared bits among bits [off, off+len) of a little-endian bitmap (naive loop)
fn zeros(bm: &[u8], off: usize, len: usize) -> usize {
    let mut n = 0;
    let mut i = 0;
    while i < len {
        if !bit(bm, off + i) { n += 1; }
        i += 1;
    }
    n
}
/// number of set bits among bits [off, off+len)
fn ones(bm: &[u8], off: usize, len: usize) -> usize { len - zeros(bm, off, len) }

// Contract (C09, C01): BooleanArray::new(values, nulls) with values = an arbitrary bit window
// [3, 3+vlen) and validity = an arbitrary bit window [6, 6+nlen) (symbolic lengths <= 8)
// of two independent 2-byte allocations. `new` panics (may-reject) on a length mismatch; whenever it
// returns, nlen == vlen (acceptance => validity length matches) and the array reads back the model:
// len, value(i), is_null(i), null_count, true_count (valid true rows), false_count (valid false rows).
// The converse direction (matching lengths are never rejected) is unit bool_new_accepts.
// @unit name=bool_new_sound props=C09,C01 kind=bounded bound=value_and_validity_windows<=8_bits_bit_offsets=(3,6) mayreject=1 fns=BooleanArray::new,BooleanArray::value,BooleanArray::true_count,BooleanArray::false_count tier=quick
#[kani::proof]
#[kani::unwind(10)]
#[kani::stub(alloc::fmt::format, stub_format)]
fn bool_new_sound() {
    let vb: [u8; 2] = kani::any();
    let bm: [u8; 2] = kani::any();
    let (vlen, nlen): (usize, usize) = kani::any();
    let (voff, boff): (usize, usize) = (3, 6);
    kani::assume(vlen <= 8 && nlen <= 8);
    let values = BooleanBuffer::new(Buffer::from_slice_ref(&vb), voff, vlen);
    let nulls = NullBuffer::new(BooleanBuffer::new(Buffer::from_slice_ref(&bm), boff, nlen));
    let a = BooleanArray::new(values, Some(nulls));
    // reached only if `new` accepted
    assert!(nlen == vlen);
    assert!(a.len() == vlen);
    assert!(a.null_count() == zeros(&bm, boff, vlen));
    let i: usize = kani::any();
    if i < vlen {
        assert!(a.value(i) == bit(&vb, voff + i));
        assert!(a.is_null(i) == !bit(&bm, boff + i));
        assert!(a.is_valid(i) == bit(&bm, boff + i));
    }
    kani::cover!(vlen == 8 && a.null_count() == 3);
    kani::cover!(vlen == 0);
    std::mem::forget(a);
}

// Contract (C09, no over-rejection; C01/C02 read-back): with matching lengths (or no validity bitmap)
// BooleanArray::new never panics, and the result reads back the model including the derived counts
// true_count = #(valid /\ true), false_count = #(valid /\ false), null_count = #(invalid).
macro_rules! bool_new_accepts {
    ($name:ident, $n:expr) => {
        #[kani::proof]
        #[kani::unwind(12)]
        #[kani::stub(alloc::fmt::format, stub_format)]
        fn $name() {
            const N: usize = $n;
            let vb: [u8; 2] = kani::any();
            let bm: [u8; 2] = kani::any();
            let (voff, boff): (usize, usize) = (3, 6);
            let with_nulls: bool = kani::any();
            let values = BooleanBuffer::new(Buffer::from_slice_ref(&vb), voff, N);
            let nulls = if with_nulls {
                Some(NullBuffer::new(BooleanBuffer::new(Buffer::from_slice_ref(&bm), boff, N)))
            } else {
                None
            };
            let a = BooleanArray::new(values, nulls);
            assert!(a.len() == N);
            let mut t = 0;
            let mut f = 0;
            let mut z = 0;
            let mut i = 0;
            while i < N {
                let valid = !with_nulls || bit(&bm, boff + i);
                let v = bit(&vb, voff + i);
                assert!(a.value(i) == v);
                assert!(a.is_null(i) == !valid);
                if !valid { z += 1 } else if v { t += 1 } else { f += 1 }
                i += 1;
            }
            assert!(a.null_count() == z);
            assert!(a.true_count() == t);
            assert!(a.false_count() == f);
            kani::cover!(with_nulls && z > 0 && t > 0 && f > 0);
            kani::cover!(!with_nulls && t == N);
            std::mem::forget(a);
        }
    };
}
// @unit name=bool_new_accepts_n3 props=C09,C01,C02 kind=bounded bound=rows=3_bit_offsets=(3,6) fns=BooleanArray::new,BooleanArray::value,BooleanArray::true_count,BooleanArray::false_count tier=thorough
bool_new_accepts!(bool_new_accepts_n3, 3);
// @unit name=bool_new_accepts_n8 props=C09,C01,C02 kind=bounded bound=rows=8_bit_offsets=(3,6) fns=BooleanArray::new,BooleanArray::value,BooleanArray::true_count,BooleanArray::false_count tier=thorough
bool_new_accepts!(bool_new_accepts_n8, 8);

// Contract (C01, C02): slice(OFF, LEN) of a 6-row boolean array (values and validity symbolic at bit
// offsets 3 and 6; validity optional) denotes exactly rows [OFF, OFF+LEN) of the model; null_count and
// true_count are recomputed exactly for the window; the parent is unchanged.
macro_rules! bool_slice {
    ($name:ident, $off:expr, $len:expr) => {
        #[kani::proof]
        #[kani::unwind(12)]
        #[kani::stub(alloc::fmt::format, stub_format)]
        fn $name() {
            const N: usize = 6;
            const OFF: usize = $off;
            const LEN: usize = $len;
            let vb: [u8; 2] = kani::any();
            let bm: [u8; 2] = kani::any();
            let (voff, boff): (usize, usize) = (3, 6);
            let with_nulls: bool = kani::any();
            let values = BooleanBuffer::new(Buffer::from_slice_ref(&vb), voff, N);
            let nulls = if with_nulls {
                Some(NullBuffer::new(BooleanBuffer::new(Buffer::from_slice_ref(&bm), boff, N)))
            } else {
                None
            };
            let a = BooleanArray::new(values, nulls);
            let s = a.slice(OFF, LEN);
            assert!(s.len() == LEN);
            assert!(s.nulls().is_some() == with_nulls);
            assert!(s.null_count() == if with_nulls { zeros(&bm, boff + OFF, LEN) } else { 0 });
            let mut t = 0;
            let mut i = 0;
            while i < LEN {
                let valid = !with_nulls || bit(&bm, boff + OFF + i);
                let v = bit(&vb, voff + OFF + i);
                assert!(s.value(i) == v);
                assert!(s.is_null(i) == !valid);
                if valid && v { t += 1 }
                i += 1;
            }
            assert!(s.true_count() == t);
            assert!(a.len() == N);
            let j: usize = kani::any();
            if j < N {
                assert!(a.value(j) == bit(&vb, voff + j));
                assert!(a.is_null(j) == (with_nulls && !bit(&bm, boff + j)));
            }
            kani::cover!(with_nulls && s.null_count() == LEN);
            kani::cover!(with_nulls && a.null_count() > s.null_count());
            kani::cover!(!with_nulls);
            std::mem::forget(s);
            std::mem::forget(a);
        }
    };
}
// @unit name=bool_slice_1_4 props=C01,C02 kind=bounded bound=rows=6_window=(1,4)_bit_offsets=(3,6) fns=BooleanArray::slice,BooleanArray::value,BooleanArray::true_count tier=thorough
bool_slice!(bool_slice_1_4, 1, 4);
// @unit name=bool_slice_3_3 props=C01,C02 kind=bounded bound=rows=6_window=(3,3)_bit_offsets=(3,6) fns=BooleanArray::slice,BooleanArray::value,BooleanArray::true_count tier=thorough
bool_slice!(bool_slice_3_3, 3, 3);
// @unit name=bool_slice_5_0 props=C01,C02 kind=bounded bound=rows=6_window=(5,0)_bit_offsets=(3,6) fns=BooleanArray::slice,BooleanArray::value,BooleanArray::true_count tier=quick
bool_slice!(bool_slice_5_0, 5, 0);
