// Kani contract harnesses for /repo/arrow-array/src/array/boolean_array.rs (child module: sees private items via super::)
