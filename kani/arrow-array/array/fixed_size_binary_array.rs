// Kani contract harnesses for /repo/arrow-array/src/array/fixed_size_binary_array.rs (child module: sees private items via super::)
