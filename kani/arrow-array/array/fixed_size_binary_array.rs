// Kani contract harnesses for /repo/arrow-array/src/array/fixed_size_binary_array.rs (child module: sees private items via super::)
use super::*;
#[path = "/verif/kani/support/spec.rs"]
mod spec;
use spec::*;
use arrow_buffer::BooleanBuffer;

// Contract (C09, both directions; C01 read-back): FixedSizeBinaryArray::try_new(SIZE, values, nulls) for
// the element width SIZE of the instance (one harness per width: the constructor divides by it), a
// values buffer that is a window of symbolic length vlen <= 7 of a 7-byte allocation and an optional
// validity bitmap of symbolic length nlen <= 8 at bit offset 5:
//   SIZE < 0                       => Err
//   SIZE == 0                      => Ok <=> vlen == 0;                  len = nlen (0 without bitmap)
//   SIZE > 0                       => Ok <=> no bitmap \/ nlen == vlen div SIZE;   len = vlen div SIZE
// and on Ok (Arrow format, fixed-size binary layout): value_length() == SIZE, len*SIZE <= vlen (every
// value lies inside the buffer), validity length == len, value(i) == bytes[i*SIZE..(i+1)*SIZE],
// is_null(i) <=> validity bit i clear.
macro_rules! fsb_try_new {
    ($name:ident, $size:expr) => {
        #[kani::proof]
        #[kani::unwind(10)]
        #[kani::stub(alloc::fmt::format, stub_format)]
        fn $name() {
            const SIZE: i32 = $size;
            let bytes: [u8; 7] = kani::any();
            let vlen: usize = kani::any();
            kani::assume(vlen <= 7);
            let bm: [u8; 2] = kani::any();
            let with_nulls: bool = kani::any();
            let boff: usize = 5;
            let nlen: usize = kani::any();
            kani::assume(nlen <= 8);
            let values = Buffer::from_slice_ref(&bytes).slice_with_length(0, vlen);
            let nulls = if with_nulls {
                Some(NullBuffer::new(BooleanBuffer::new(Buffer::from_slice_ref(&bm), boff, nlen)))
            } else {
                None
            };
            let r = FixedSizeBinaryArray::try_new(SIZE, values, nulls);
            let div: usize = if SIZE > 0 { SIZE as usize } else { 1 };     // divisor for the spec side (never 0)
            if SIZE < 0 {
                assert!(r.is_err());
            } else if SIZE == 0 {
                assert!(r.is_ok() == (vlen == 0));
            } else {
                assert!(r.is_ok() == (!with_nulls || nlen == vlen / div));
            }
            if let Ok(a) = &r {
                let sz = SIZE as usize;
                let len = if sz == 0 { if with_nulls { nlen } else { 0 } } else { vlen / div };
                assert!(a.len() == len);
                assert!(a.value_length() == SIZE);
                assert!(len * sz <= vlen);
                assert!(a.nulls().is_some() == with_nulls);
                if let Some(n) = a.nulls() { assert!(n.len() == len); }
                let i: usize = kani::any();
                if i < len {
                    let v = a.value(i);
                    assert!(v.len() == sz);
                    let j: usize = kani::any();
                    if j < sz { assert!(v[j] == bytes[i * sz + j]); }
                    assert!(a.is_null(i) == (with_nulls && !bit(&bm, boff + i)));
                }
            }
            kani::cover!(SIZE < 0 || (r.is_ok() && with_nulls));
            kani::cover!(SIZE < 0 || (r.is_ok() && !with_nulls && (SIZE == 0 || vlen >= 2 * SIZE as usize)));
            kani::cover!(r.is_err());
            std::mem::forget(r);
        }
    };
}
// @unit name=fsb_try_new_neg props=C09 kind=bounded bound=value_length=-1_values<=7_bytes_validity<=8_bits fns=FixedSizeBinaryArray::try_new,FixedSizeBinaryArray::try_new_with_len tier=quick
fsb_try_new!(fsb_try_new_neg, -1);
// @unit name=fsb_try_new_w0 props=C09,C01 kind=bounded bound=value_length=0_values<=7_bytes_validity<=8_bits fns=FixedSizeBinaryArray::try_new,FixedSizeBinaryArray::try_new_with_len,FixedSizeBinaryArray::value tier=quick
fsb_try_new!(fsb_try_new_w0, 0);
// @unit name=fsb_try_new_w1 props=C09,C01 kind=bounded bound=value_length=1_values<=7_bytes_validity<=8_bits fns=FixedSizeBinaryArray::try_new,FixedSizeBinaryArray::try_new_with_len,FixedSizeBinaryArray::value tier=quick
fsb_try_new!(fsb_try_new_w1, 1);
// @unit name=fsb_try_new_w2 props=C09,C01 kind=bounded bound=value_length=2_values<=7_bytes_validity<=8_bits fns=FixedSizeBinaryArray::try_new,FixedSizeBinaryArray::try_new_with_len,FixedSizeBinaryArray::value tier=quick
fsb_try_new!(fsb_try_new_w2, 2);
// @unit name=fsb_try_new_w3 props=C09,C01 kind=bounded bound=value_length=3_values<=7_bytes_validity<=8_bits fns=FixedSizeBinaryArray::try_new,FixedSizeBinaryArray::try_new_with_len,FixedSizeBinaryArray::value tier=quick
fsb_try_new!(fsb_try_new_w3, 3);

// Contract (C01, C02): slice(OFF, LEN) of a 3-row FixedSizeBinary(2) array denotes rows [OFF, OFF+LEN)
// of the model (value bytes, nulls, exact null count); a window that exceeds the array is rejected by a
// checked panic (may-reject), never read.
// @unit name=fsb_slice_w2 props=C01,C02 kind=bounded bound=rows=3_width=2_all_windows mayreject=1 fns=FixedSizeBinaryArray::slice,FixedSizeBinaryArray::value tier=quick
#[kani::proof]
#[kani::unwind(10)]
#[kani::stub(alloc::fmt::format, stub_format)]
fn fsb_slice_w2() {
    let bytes: [u8; 6] = kani::any();
    let bm: [u8; 1] = kani::any();
    let with_nulls: bool = kani::any();
    let nulls = if with_nulls { Some(NullBuffer::new(BooleanBuffer::new(Buffer::from_slice_ref(&bm), 2, 3))) } else { None };
    let a = unsafe { FixedSizeBinaryArray::new_unchecked(2, Buffer::from_slice_ref(&bytes), nulls, 3) };
    let (off, len): (usize, usize) = kani::any();
    let s = a.slice(off, len);
    // reached only if slice accepted the window
    assert!(off <= 3 && len <= 3 - off);
    assert!(s.len() == len && s.value_length() == 2);
    let mut z = 0;
    let mut i = 0;
    while i < 3 {
        if i < len {
            let v = s.value(i);
            assert!(v.len() == 2 && v[0] == bytes[2 * (off + i)] && v[1] == bytes[2 * (off + i) + 1]);
            let null = with_nulls && !bit(&bm, 2 + off + i);
            assert!(s.is_null(i) == null);
            if null { z += 1 }
        }
        i += 1;
    }
    assert!(s.null_count() == z);
    kani::cover!(off == 1 && len == 2 && z == 1);
    kani::cover!(off == 3 && len == 0);
    std::mem::forget(s);
    std::mem::forget(a);
}
