// Kani contract harnesses for /repo/arrow-array/src/array/primitive_array.rs (child module: sees private items via super::)
use super::*;
#[path = "/verif/kani/support/spec.rs"]
mod spec;
use spec::*;
use crate::types::Int32Type;
use arrow_buffer::{BooleanBuffer, Buffer, NullBuffer, ScalarBuffer};

/// number of cleared bits among bits [off, off+len) of a little-endian bitmap (naive loop: the Arrow
/// definition of "null count")
fn zeros(bm: &[u8], off: usize, len: usize) -> usize {
    let mut n = 0;
    let mut i = 0;
    while i < len {
        if !bit(bm, off + i) { n += 1; }
        i += 1;
    }
    n
}

// Contract (C09, C01): PrimitiveArray::<Int32Type>::try_new(values, nulls) for a values buffer that is an
// arbitrary window [voff, voff+VL) of a 4-element allocation and an optional validity bitmap that is an
// arbitrary bit window [boff, boff+nlen) (boff < 8, nlen <= 8) of a 2-byte allocation:
//   Ok  <=>  nulls is None  \/  nlen == VL                      (both directions)
// and on Ok the array is well-formed and reads back the model: len == VL, value(i) == model[i],
// is_null(i) <=> validity bit i is 0, is_valid(i) is its negation, null_count == number of 0 bits
// (0 without a bitmap), nulls() is Some exactly when a bitmap was given.
macro_rules! prim_try_new {
    ($name:ident, $vl:expr) => {
        #[kani::proof]
        #[kani::unwind(10)]
        #[kani::stub(alloc::fmt::format, stub_format)]
        fn $name() {
            const VL: usize = $vl;
            let store: [i32; 4] = kani::any();
            let voff: usize = kani::any();
            kani::assume(voff <= 4 - VL);
            let bm: [u8; 2] = kani::any();
            let with_nulls: bool = kani::any();
            let boff: usize = kani::any();
            let nlen: usize = kani::any();
            kani::assume(boff < 8 && nlen <= 8);
            let values = ScalarBuffer::<i32>::new(Buffer::from_slice_ref(&store), voff, VL);
            let nulls = if with_nulls {
                Some(NullBuffer::new(BooleanBuffer::new(Buffer::from_slice_ref(&bm), boff, nlen)))
            } else {
                None
            };
            let r = PrimitiveArray::<Int32Type>::try_new(values, nulls);
            assert!(r.is_ok() == (!with_nulls || nlen == VL));
            if let Ok(a) = &r {
                assert!(a.len() == VL);
                assert!(a.values().len() == VL);
                assert!(a.nulls().is_some() == with_nulls);
                assert!(a.null_count() == if with_nulls { zeros(&bm, boff, VL) } else { 0 });
                let mut i = 0;
                while i < VL {
                    assert!(a.value(i) == store[voff + i]);
                    let null = with_nulls && !bit(&bm, boff + i);
                    assert!(a.is_null(i) == null);
                    assert!(a.is_valid(i) == !null);
                    i += 1;
                }
            }
            kani::cover!(r.is_ok() && with_nulls);
            kani::cover!(r.is_ok() && !with_nulls);
            kani::cover!(r.is_err());
            std::mem::forget(r);
        }
    };
}
// @unit name=prim_try_new_len0 props=C09,C01 kind=bounded bound=values_len=0_of_4_any_window_bitmap_window<=8_bits_any_bit_offset<8 fns=PrimitiveArray::try_new,PrimitiveArray::value,PrimitiveArray::is_null,PrimitiveArray::null_count tier=quick
prim_try_new!(prim_try_new_len0, 0);
// @unit name=prim_try_new_len1 props=C09,C01 kind=bounded bound=values_len=1_of_4_any_window_bitmap_window<=8_bits_any_bit_offset<8 fns=PrimitiveArray::try_new,PrimitiveArray::value,PrimitiveArray::is_null,PrimitiveArray::null_count tier=quick
prim_try_new!(prim_try_new_len1, 1);
// @unit name=prim_try_new_len3 props=C09,C01 kind=bounded bound=values_len=3_of_4_any_window_bitmap_window<=8_bits_any_bit_offset<8 fns=PrimitiveArray::try_new,PrimitiveArray::value,PrimitiveArray::is_null,PrimitiveArray::null_count tier=quick
prim_try_new!(prim_try_new_len3, 3);
// @unit name=prim_try_new_len4 props=C09,C01 kind=bounded bound=values_len=4_of_4_bitmap_window<=8_bits_any_bit_offset<8 fns=PrimitiveArray::try_new,PrimitiveArray::value,PrimitiveArray::is_null,PrimitiveArray::null_count tier=quick
prim_try_new!(prim_try_new_len4, 4);

// Contract (C01, C02): for an Int32 array of 4 rows (values and validity bits symbolic, validity optional,
// bitmap stored at bit offset BOFF) and the window (OFF, LEN) of the instance, slice(OFF, LEN) is a
// well-formed array that denotes exactly rows [OFF, OFF+LEN) of the model: len, value(i), is_null(i),
// is_valid(i); null_count is recomputed exactly for the window; the parent is unchanged (frame).
macro_rules! prim_slice {
    ($name:ident, $off:expr, $len:expr, $boff:expr) => {
        #[kani::proof]
        #[kani::unwind(10)]
        #[kani::stub(alloc::fmt::format, stub_format)]
        fn $name() {
            const N: usize = 4;
            const OFF: usize = $off;
            const LEN: usize = $len;
            const BOFF: usize = $boff;
            let store: [i32; N] = kani::any();
            let bm: [u8; 2] = kani::any();
            let with_nulls: bool = kani::any();
            let nulls = if with_nulls {
                Some(NullBuffer::new(BooleanBuffer::new(Buffer::from_slice_ref(&bm), BOFF, N)))
            } else {
                None
            };
            // input array built with the unchecked constructor (lengths agree by construction); `new` = try_new().unwrap()
            // is avoided on purpose: its unwrap path alone costs > 600 s under CBMC (measured)
            let a = unsafe { PrimitiveArray::<Int32Type>::new_unchecked(ScalarBuffer::new(Buffer::from_slice_ref(&store), 0, N), nulls) };
            let s = a.slice(OFF, LEN);
            assert!(s.len() == LEN);
            assert!(s.nulls().is_some() == with_nulls);
            assert!(s.null_count() == if with_nulls { zeros(&bm, BOFF + OFF, LEN) } else { 0 });
            let mut i = 0;
            while i < LEN {
                assert!(s.value(i) == store[OFF + i]);
                let null = with_nulls && !bit(&bm, BOFF + OFF + i);
                assert!(s.is_null(i) == null && s.is_valid(i) == !null);
                i += 1;
            }
            // frame: parent still reads the whole model
            assert!(a.len() == N);
            let j: usize = kani::any();
            kani::assume(j < N);
            assert!(a.value(j) == store[j]);
            assert!(a.is_null(j) == (with_nulls && !bit(&bm, BOFF + j)));
            kani::cover!(with_nulls && a.null_count() > 0 && a.null_count() < N);
            kani::cover!(with_nulls && s.null_count() == LEN);
            kani::cover!(!with_nulls);
            std::mem::forget(s);
            std::mem::forget(a);
        }
    };
}
// @unit name=prim_slice_0_4 props=C01,C02 kind=bounded bound=rows=4_window=(0,4)_bitmap_bit_offset=0 fns=PrimitiveArray::slice,PrimitiveArray::value,PrimitiveArray::is_null,PrimitiveArray::null_count tier=quick
prim_slice!(prim_slice_0_4, 0, 4, 0);
// @unit name=prim_slice_1_2 props=C01,C02 kind=bounded bound=rows=4_window=(1,2)_bitmap_bit_offset=5 fns=PrimitiveArray::slice,PrimitiveArray::value,PrimitiveArray::is_null,PrimitiveArray::null_count tier=quick
prim_slice!(prim_slice_1_2, 1, 2, 5);
// @unit name=prim_slice_1_3 props=C01,C02 kind=bounded bound=rows=4_window=(1,3)_bitmap_bit_offset=0 fns=PrimitiveArray::slice,PrimitiveArray::value,PrimitiveArray::is_null,PrimitiveArray::null_count tier=quick
prim_slice!(prim_slice_1_3, 1, 3, 0);
// @unit name=prim_slice_3_1 props=C01,C02 kind=bounded bound=rows=4_window=(3,1)_bitmap_bit_offset=5 fns=PrimitiveArray::slice,PrimitiveArray::value,PrimitiveArray::is_null,PrimitiveArray::null_count tier=quick
prim_slice!(prim_slice_3_1, 3, 1, 5);
// @unit name=prim_slice_4_0 props=C01,C02 kind=bounded bound=rows=4_window=(4,0)_bitmap_bit_offset=3 fns=PrimitiveArray::slice,PrimitiveArray::value,PrimitiveArray::is_null,PrimitiveArray::null_count tier=quick
prim_slice!(prim_slice_4_0, 4, 0, 3);

// Contract (C01): value(i) on an index >= len is rejected by a checked panic (may-reject): the line
// after the call is reached only for i < len, so there is no unchecked read past the window of a slice
// even though the parent allocation is larger.
// @unit name=prim_value_oob_rejected props=C01,C09 kind=bounded bound=rows=4_all_windows mayreject=1 fns=PrimitiveArray::value tier=quick
#[kani::proof]
#[kani::unwind(10)]
#[kani::stub(alloc::fmt::format, stub_format)]
fn prim_value_oob_rejected() {
    let store: [i32; 4] = kani::any();
    let a = unsafe { PrimitiveArray::<Int32Type>::new_unchecked(ScalarBuffer::new(Buffer::from_slice_ref(&store), 0, 4), None) };
    let off: usize = kani::any();
    let len: usize = kani::any();
    kani::assume(off <= 4 && len <= 4 - off);
    let s = a.slice(off, len);
    let i: usize = kani::any();
    let v = s.value(i);
    assert!(i < len && v == store[off + i]);
    kani::cover!(i + 1 == len && off > 0);
    std::mem::forget(s);
    std::mem::forget(a);
}
