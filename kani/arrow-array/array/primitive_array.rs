// Kani contract harnesses for /repo/arrow-array/src/array/primitive_array.rs (child module: sees private items via super::)
