// Kani contract harnesses for /repo/arrow-array/src/array/byte_view_array.rs (child module: sees private items via super::)
use super::*;
#[path = "/verif/kani/support/spec.rs"]
mod spec;
use spec::*;
use arrow_buffer::BooleanBuffer;

/// Well-formedness of one 16-byte view against the data buffers, written from the Arrow columnar format
/// ("Variable-size Binary View Layout"): bytes 0..4 = length (LE). length <= 12: the value is inlined in
/// bytes 4..4+length and the remaining bytes are zero padding. length > 12: bytes 4..8 = first four
/// bytes of the value, bytes 8..12 = buffer index, bytes 12..16 = offset; the index names an existing
/// buffer, [offset, offset+length) lies inside it and the prefix equals the data there.
fn view_wf(v: u128, data: &[u8], nbuffers: usize) -> bool {
    let b = v.to_le_bytes();
    let len = u32::from_le_bytes([b[0], b[1], b[2], b[3]]) as usize;
    if len <= 12 {
        let mut i = 4 + len;
        while i < 16 {
            if b[i] != 0 { return false; }
            i += 1;
        }
        true
    } else {
        let bi = u32::from_le_bytes([b[8], b[9], b[10], b[11]]) as usize;
        let off = u32::from_le_bytes([b[12], b[13], b[14], b[15]]) as usize;
        if bi >= nbuffers { return false; }
        // a single data buffer in these harnesses: bi == 0
        if off + len > data.len() { return false; }
        b[4] == data[off] && b[5] == data[off + 1] && b[6] == data[off + 2] && b[7] == data[off + 3]
    }
}

// Contract (C09, both directions; C01 read-back): GenericByteViewArray::<BinaryViewType>::try_new(views,
// buffers, nulls) with two arbitrary 128-bit views, one data buffer of 14 symbolic bytes (so both inline
// and out-of-line views with lengths 13 and 14 occur) and an optional validity bitmap of symbolic length
// <= 3:  Ok <=> both views are well-formed (view_wf) /\ (no bitmap \/ bitmap length == 2). On Ok,
// value(i) is exactly the bytes the view denotes (inline bytes, or data[offset..offset+len]).
// @unit name=binary_view_try_new_iff props=C09,C01 kind=bounded bound=views=2_data_buffers=1_of_14_bytes_validity<=3_bits fns=GenericByteViewArray::try_new,GenericByteViewArray::value timeout=900 mem=6 tier=thorough
#[kani::proof]
#[kani::unwind(18)]
#[kani::stub(alloc::fmt::format, stub_format)]
fn binary_view_try_new_iff() {
    let views: [u128; 2] = kani::any();
    let data: [u8; 14] = kani::any();
    let bm: [u8; 1] = kani::any();
    let with_nulls: bool = kani::any();
    let nlen: usize = kani::any();
    kani::assume(nlen <= 3);
    let nulls = if with_nulls { Some(NullBuffer::new(BooleanBuffer::new(Buffer::from_slice_ref(&bm), 1, nlen))) } else { None };
    let vb = ScalarBuffer::<u128>::new(Buffer::from_slice_ref(&views), 0, 2);
    let r = GenericByteViewArray::<BinaryViewType>::try_new(vb, vec![Buffer::from_slice_ref(&data)], nulls);
    let wf = view_wf(views[0], &data, 1) && view_wf(views[1], &data, 1);
    assert!(r.is_ok() == (wf && (!with_nulls || nlen == 2)));
    if let Ok(a) = &r {
        assert!(a.len() == 2);
        let i: usize = kani::any();
        kani::assume(i < 2);
        let b = views[i].to_le_bytes();
        let len = u32::from_le_bytes([b[0], b[1], b[2], b[3]]) as usize;
        let off = u32::from_le_bytes([b[12], b[13], b[14], b[15]]) as usize;
        let v: &[u8] = a.value(i);
        assert!(v.len() == len);
        let j: usize = kani::any();
        if j < len {
            assert!(v[j] == if len <= 12 { b[4 + j] } else { data[off + j] });
        }
        assert!(a.is_null(i) == (with_nulls && !bit(&bm, 1 + i)));
    }
    kani::cover!(r.is_ok() && (views[0] as u32) == 13 && (views[1] as u32) == 5);
    kani::cover!(r.is_ok() && (views[0] as u32) == 14 && with_nulls);
    kani::cover!(r.is_err() && wf);
    kani::cover!(r.is_err() && (views[1] as u32) == 3 && view_wf(views[0], &data, 1));     // non-zero padding
    kani::cover!(r.is_err() && (views[0] as u32) == 13 && (views[0] >> 64) as u32 == 0 && (views[0] >> 96) as u32 == 1);   // prefix mismatch
    std::mem::forget(r);
}
