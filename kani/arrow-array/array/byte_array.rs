// Kani contract harnesses for /repo/arrow-array/src/array/byte_array.rs (child module: sees private items via super::)
use super::*;
#[path = "/verif/kani/support/spec.rs"]
mod spec;
use spec::*;
use crate::types::{BinaryType, Utf8Type};
use arrow_buffer::{BooleanBuffer, Buffer, NullBuffer, OffsetBuffer, ScalarBuffer};

/// Well-formed UTF-8 byte sequence, written from Table 3-7 of the Unicode Standard ("Well-Formed
/// UTF-8 Byte Sequences", the definition RFC 3629 and the Arrow format refer to). Independent of
/// core::str::from_utf8.
fn utf8_wf(s: &[u8]) -> bool {
    let mut i = 0;
    while i < s.len() {
        let b0 = s[i];
        if b0 < 0x80 {
            i += 1;
            continue;
        }
        // (number of continuation bytes, admissible range of the first continuation byte)
        let (n, lo, hi): (usize, u8, u8) = match b0 {
            0xC2..=0xDF => (1, 0x80, 0xBF),
            0xE0 => (2, 0xA0, 0xBF),
            0xE1..=0xEC => (2, 0x80, 0xBF),
            0xED => (2, 0x80, 0x9F),
            0xEE..=0xEF => (2, 0x80, 0xBF),
            0xF0 => (3, 0x90, 0xBF),
            0xF1..=0xF3 => (3, 0x80, 0xBF),
            0xF4 => (3, 0x80, 0x8F),
            _ => return false,
        };
        if s.len() - i <= n { return false; }
        if s[i + 1] < lo || s[i + 1] > hi { return false; }
        let mut k = 2;
        while k <= n {
            if s[i + k] < 0x80 || s[i + k] > 0xBF { return false; }
            k += 1;
        }
        i += n + 1;
    }
    true
}

fn zeros(bm: &[u8], off: usize, len: usize) -> usize {
    let mut n = 0;
    let mut i = 0;
    while i < len {
        if !bit(bm, off + i) { n += 1; }
        i += 1;
    }
    n
}

/// offsets satisfying the (already validated) OffsetBuffer invariant: non-negative, monotone
fn any_offsets<const K: usize>() -> [i32; K] {
    let o: [i32; K] = kani::any();
    kani::assume(o[0] >= 0);
    let mut i = 1;
    while i < K {
        kani::assume(o[i - 1] <= o[i]);
        i += 1;
    }
    o
}

// Contract (C09, accept => well-formed): GenericByteArray::<Utf8>::try_new(offsets, values, nulls) with
// 3 symbolic offsets (a valid OffsetBuffer: non-negative, monotone — otherwise arbitrary, in particular
// possibly beyond the values), 4 symbolic value bytes and an optional validity bitmap of symbolic length
// <= 4 at bit offset 5. If it returns Ok then, by the Arrow columnar format:
//   last offset <= values.len();  every value bytes[o[i]..o[i+1]] is well-formed UTF-8 (utf8_wf above:
//   in particular no value starts or ends inside a code point);  validity length == number of values;
// and the accessors read back the model: len, value(i) (bytes), value_length(i), is_null(i), null_count.
// @unit name=utf8_try_new_sound props=C09,C01 kind=bounded bound=offsets=3_value_bytes=4_validity<=4_bits fns=GenericByteArray::try_new,GenericStringType::validate,GenericByteArray::value,GenericByteArray::value_length timeout=900 mem=4 tier=thorough
#[kani::proof]
#[kani::unwind(8)]
#[kani::stub(alloc::fmt::format, stub_format)]
fn utf8_try_new_sound() {
    let offs = any_offsets::<3>();
    let bytes: [u8; 4] = kani::any();
    let bm: [u8; 2] = kani::any();
    let with_nulls: bool = kani::any();
    let boff: usize = 5;
    let nlen: usize = kani::any();
    kani::assume(nlen <= 4);
    let ob = unsafe { OffsetBuffer::new_unchecked(ScalarBuffer::new(Buffer::from_slice_ref(&offs), 0, 3)) };
    let nulls = if with_nulls {
        Some(NullBuffer::new(BooleanBuffer::new(Buffer::from_slice_ref(&bm), boff, nlen)))
    } else {
        None
    };
    let r = GenericByteArray::<Utf8Type>::try_new(ob, Buffer::from_slice_ref(&bytes), nulls);
    if let Ok(a) = &r {
        assert!(offs[2] as usize <= 4);
        assert!(!with_nulls || nlen == 2);
        assert!(a.len() == 2);
        assert!(a.null_count() == if with_nulls { zeros(&bm, boff, 2) } else { 0 });
        let mut i = 0;
        while i < 2 {
            let v = &bytes[offs[i] as usize..offs[i + 1] as usize];
            assert!(utf8_wf(v));
            assert!(a.value(i).as_bytes() == v);
            assert!(a.value_length(i) == offs[i + 1] - offs[i]);
            assert!(a.is_null(i) == (with_nulls && !bit(&bm, boff + i)));
            i += 1;
        }
    }
    kani::cover!(r.is_ok() && offs[0] == 1 && offs[1] == 3 && offs[2] == 4 && bytes[1] >= 0x80);
    kani::cover!(r.is_ok() && offs[0] == 0 && offs[1] == 4 && bytes[0] == 0xF0);
    kani::cover!(r.is_ok() && with_nulls);
    kani::cover!(r.is_err() && offs[2] <= 4 && utf8_wf(&bytes));      // rejected: split code point or bitmap
    kani::cover!(r.is_err() && offs[2] > 4);
    std::mem::forget(r);
}

// Contract (C09, no over-rejection): if the whole values buffer is well-formed UTF-8, the last offset is
// within it, every offset falls on a code-point boundary (i.e. each value is itself well-formed) and the
// validity bitmap, if any, has one bit per value, then try_new returns Ok.
// NOTE (documented strictness, not a defect): the constructor validates the *whole* values buffer, so
// ill-formed bytes that no value references (before the first / after the last offset) are rejected too;
// the precondition therefore asks for a well-formed buffer, which is stronger than the format requires.
// @unit name=utf8_try_new_accepts props=C09 kind=bounded bound=offsets=3_value_bytes=4 fns=GenericByteArray::try_new,GenericStringType::validate timeout=900 mem=4 tier=thorough
#[kani::proof]
#[kani::unwind(8)]
#[kani::stub(alloc::fmt::format, stub_format)]
fn utf8_try_new_accepts() {
    let offs = any_offsets::<3>();
    let bytes: [u8; 4] = kani::any();
    kani::assume(offs[2] <= 4);
    kani::assume(utf8_wf(&bytes));
    kani::assume(utf8_wf(&bytes[..offs[0] as usize]));
    kani::assume(utf8_wf(&bytes[offs[0] as usize..offs[1] as usize]));
    kani::assume(utf8_wf(&bytes[offs[1] as usize..offs[2] as usize]));
    let bm: [u8; 1] = kani::any();
    let with_nulls: bool = kani::any();
    let ob = unsafe { OffsetBuffer::new_unchecked(ScalarBuffer::new(Buffer::from_slice_ref(&offs), 0, 3)) };
    let nulls = if with_nulls {
        Some(NullBuffer::new(BooleanBuffer::new(Buffer::from_slice_ref(&bm), 0, 2)))
    } else {
        None
    };
    let r = GenericByteArray::<Utf8Type>::try_new(ob, Buffer::from_slice_ref(&bytes), nulls);
    assert!(r.is_ok());
    kani::cover!(offs[0] == 0 && offs[1] == 2 && offs[2] == 4 && bytes[0] >= 0xC2);
    kani::cover!(offs[1] == 3 && bytes[0] == 0xE2 && offs[0] == 0);
    kani::cover!(with_nulls);
    std::mem::forget(r);
}

// Contract (C09, both directions): GenericByteArray::<Binary>::try_new(offsets, values, nulls) with 4
// symbolic offsets (valid OffsetBuffer), a values buffer that is a window of symbolic length <= 6 and an
// optional validity bitmap of symbolic length <= 4:  Ok <=> last offset <= values.len() /\ (no bitmap \/
// bitmap length == 3). On Ok the accessors read back the model (value bytes, value_length, nulls).
// @unit name=binary_try_new_iff props=C09,C01 kind=bounded bound=offsets=4_value_bytes<=6_validity<=4_bits fns=GenericByteArray::try_new,GenericBinaryType::validate,GenericByteArray::value,GenericByteArray::value_length timeout=900 mem=4 tier=quick
#[kani::proof]
#[kani::unwind(8)]
#[kani::stub(alloc::fmt::format, stub_format)]
fn binary_try_new_iff() {
    let offs = any_offsets::<4>();
    let bytes: [u8; 6] = kani::any();
    let vlen: usize = kani::any();
    kani::assume(vlen <= 6);
    let bm: [u8; 2] = kani::any();
    let with_nulls: bool = kani::any();
    let boff: usize = 5;
    let nlen: usize = kani::any();
    kani::assume(nlen <= 4);
    let ob = unsafe { OffsetBuffer::new_unchecked(ScalarBuffer::new(Buffer::from_slice_ref(&offs), 0, 4)) };
    let nulls = if with_nulls {
        Some(NullBuffer::new(BooleanBuffer::new(Buffer::from_slice_ref(&bm), boff, nlen)))
    } else {
        None
    };
    let values = Buffer::from_slice_ref(&bytes).slice_with_length(0, vlen);
    let r = GenericByteArray::<BinaryType>::try_new(ob, values, nulls);
    assert!(r.is_ok() == (offs[3] as usize <= vlen && (!with_nulls || nlen == 3)));
    if let Ok(a) = &r {
        assert!(a.len() == 3);
        assert!(a.null_count() == if with_nulls { zeros(&bm, boff, 3) } else { 0 });
        let mut i = 0;
        while i < 3 {
            let v = &bytes[offs[i] as usize..offs[i + 1] as usize];
            assert!(a.value(i) == v);
            assert!(a.value_length(i) == offs[i + 1] - offs[i]);
            assert!(a.is_null(i) == (with_nulls && !bit(&bm, boff + i)));
            i += 1;
        }
    }
    kani::cover!(r.is_ok() && with_nulls && offs[0] > 0 && offs[3] as usize == vlen && offs[1] > offs[0]);
    kani::cover!(r.is_err() && offs[3] as usize == vlen + 1);
    kani::cover!(r.is_err() && with_nulls && nlen == 4 && offs[3] == 0);
    std::mem::forget(r);
}

// Contract (C01, C02): slice(OFF, LEN) of a 3-row Binary array (offsets, bytes, validity symbolic;
// validity optional) denotes exactly rows [OFF, OFF+LEN) of the model: len, value(i) bytes,
// value_length(i), is_null(i); null_count recomputed exactly; value_offsets() of the slice is the
// window OFF..=OFF+LEN of the parent's offsets (LEN+1 entries, still monotone and inside the values).
macro_rules! binary_slice {
    ($name:ident, $off:expr, $len:expr) => {
        #[kani::proof]
        #[kani::unwind(8)]
        #[kani::stub(alloc::fmt::format, stub_format)]
        fn $name() {
            const OFF: usize = $off;
            const LEN: usize = $len;
            let offs = any_offsets::<4>();
            kani::assume(offs[3] <= 6);
            let bytes: [u8; 6] = kani::any();
            let bm: [u8; 2] = kani::any();
            let with_nulls: bool = kani::any();
            let boff: usize = 5;
            let ob = unsafe { OffsetBuffer::new_unchecked(ScalarBuffer::new(Buffer::from_slice_ref(&offs), 0, 4)) };
            let nulls = if with_nulls {
                Some(NullBuffer::new(BooleanBuffer::new(Buffer::from_slice_ref(&bm), boff, 3)))
            } else {
                None
            };
            let a = unsafe { GenericByteArray::<BinaryType>::new_unchecked(ob, Buffer::from_slice_ref(&bytes), nulls) };
            let s = a.slice(OFF, LEN);
            assert!(s.len() == LEN);
            assert!(s.value_offsets().len() == LEN + 1);
            assert!(s.null_count() == if with_nulls { zeros(&bm, boff + OFF, LEN) } else { 0 });
            let mut i = 0;
            while i <= LEN {
                assert!(s.value_offsets()[i] == offs[OFF + i]);
                i += 1;
            }
            i = 0;
            while i < LEN {
                let v = &bytes[offs[OFF + i] as usize..offs[OFF + i + 1] as usize];
                assert!(s.value(i) == v);
                assert!(s.value_length(i) as usize == v.len());
                assert!(s.is_null(i) == (with_nulls && !bit(&bm, boff + OFF + i)));
                i += 1;
            }
            assert!(a.len() == 3);
            kani::cover!(with_nulls && offs[OFF] > 0);
            kani::cover!(!with_nulls && offs[3] == 6 && offs[0] == 0);
            std::mem::forget(s);
            std::mem::forget(a);
        }
    };
}
// @unit name=binary_slice_1_2 props=C01,C02 kind=bounded bound=rows=3_value_bytes=6_window=(1,2) fns=GenericByteArray::slice,GenericByteArray::value,GenericByteArray::value_length timeout=900 mem=4 tier=quick
binary_slice!(binary_slice_1_2, 1, 2);
// @unit name=binary_slice_2_1 props=C01,C02 kind=bounded bound=rows=3_value_bytes=6_window=(2,1) fns=GenericByteArray::slice,GenericByteArray::value,GenericByteArray::value_length timeout=900 mem=4 tier=quick
binary_slice!(binary_slice_2_1, 2, 1);
// @unit name=binary_slice_3_0 props=C01,C02 kind=bounded bound=rows=3_value_bytes=6_window=(3,0) fns=GenericByteArray::slice,GenericByteArray::value,GenericByteArray::value_length timeout=900 mem=4 tier=quick
binary_slice!(binary_slice_3_0, 3, 0);
