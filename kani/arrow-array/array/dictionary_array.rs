// Kani contract harnesses for /repo/arrow-array/src/array/dictionary_array.rs (child module: sees private items via super::)
use super::*;
#[path = "/verif/kani/support/spec.rs"]
mod spec;
use spec::*;
use crate::types::{Int32Type, Int8Type};
use arrow_buffer::{BooleanBuffer, Buffer, NullBuffer, ScalarBuffer};

// Contract (C09, single attempt): DictionaryArray::<Int8Type>::try_new(keys, values) with 2 symbolic keys
// (validity symbolic) and a 2-entry Int32 dictionary: Ok <=> every valid key k satisfies 0 <= k < 2
// (values under null keys are ignored). The values argument is an ArrayRef (Arc<dyn Array>): values.len()
// and values.data_type() are dyn calls.
// @unit name=dict_i8_try_new_iff props=C09 kind=bounded bound=keys=2_dictionary=2_entries fns=DictionaryArray::try_new timeout=900 mem=10 tier=thorough note=not_confirmed_not_run
#[kani::proof]
#[kani::unwind(8)]
#[kani::stub(alloc::fmt::format, stub_format)]
fn dict_i8_try_new_iff() {
    let keys: [i8; 2] = kani::any();
    let bm: [u8; 1] = kani::any();
    let dict = [7i32, 9];
    let k = unsafe {
        PrimitiveArray::<Int8Type>::new_unchecked(
            ScalarBuffer::new(Buffer::from_slice_ref(&keys), 0, 2),
            Some(NullBuffer::new(BooleanBuffer::new(Buffer::from_slice_ref(&bm), 0, 2))),
        )
    };
    let v = unsafe { PrimitiveArray::<Int32Type>::new_unchecked(ScalarBuffer::new(Buffer::from_slice_ref(&dict), 0, 2), None) };
    let values: ArrayRef = Arc::new(v);
    let r = DictionaryArray::<Int8Type>::try_new(k, values);
    let mut ok = true;
    let mut i = 0;
    while i < 2 {
        if bit(&bm, i) && (keys[i] < 0 || keys[i] >= 2) { ok = false; }
        i += 1;
    }
    assert!(r.is_ok() == ok);
    kani::cover!(r.is_ok() && keys[0] == 5);     // garbage under a null key accepted
    kani::cover!(r.is_err());
    std::mem::forget(r);
}
