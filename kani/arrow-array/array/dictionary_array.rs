// Kani contract harnesses for /repo/arrow-array/src/array/dictionary_array.rs (child module: sees private items via super::)
