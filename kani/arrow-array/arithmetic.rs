// Kani contract harnesses for /repo/arrow-array/src/arithmetic.rs (child module: sees private items via super::)
