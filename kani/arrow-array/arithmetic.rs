// Kani contract harnesses for /repo/arrow-array/src/arithmetic.rs (child module: sees private items via super::)
//
// Units: ArrowNativeTypeOp (macro-generated impls; Kani sees the expansion) for
//   i8 u8 i16 u16 i32 u32 i64 u64 i128, f16 f32 f64, i256, IntervalDayTime, IntervalMonthDayNano.
// Spec side: exact integer arithmetic in a wider primitive type (i64 / i128 / u128); `x as T` is the
// reduction mod 2^w (two's complement truncation).  Only where the guide says the solver cannot bear
// a wide nonlinear spec (div/mod at >= 32 bits, everything at 128 bits, pow at >= 32 bits) the spec
// side is core's own checked_*/wrapping_* operator - stated in the contract of those units.
// Stubs: alloc::fmt::format -> spec::stub_format (error messages are not part of any contract).
use super::*;
use std::cmp::Ordering;
#[path = "/verif/kani/support/spec.rs"]
mod spec;
use spec::*;

fn is_dbz<T>(r: &Result<T, ArrowError>) -> bool { matches!(r, Err(ArrowError::DivideByZero)) }
fn is_ovf<T>(r: &Result<T, ArrowError>) -> bool { matches!(r, Err(ArrowError::ArithmeticOverflow(_))) }

// ================================================================================================
// C12  add / sub / mul  vs exact arithmetic in a wide type $w (no operation below can overflow $w)
// ================================================================================================

// Contract (C12): for all a, b of type T, with exact = a (+|-|*) b computed in a wider integer type
// in which the operation cannot overflow:
//   T::op_checked(a,b) = Ok(r)  <=>  T::MIN <= exact <= T::MAX, and then r = exact;
//   otherwise Err(ArithmeticOverflow) (never DivideByZero, never a wrapped value);
//   T::op_wrapping(a,b) = exact mod 2^w (two's complement truncation of exact).
macro_rules! int_binop {
    ($name:ident, $t:ty, $w:ty, $checked:ident, $wrapping:ident, $op:tt) => {
        #[kani::proof]
        #[kani::stub(alloc::fmt::format, stub_format)]
        fn $name() {
            let a: $t = kani::any();
            let b: $t = kani::any();
            let exact: $w = (a as $w) $op (b as $w);
            let fits = exact >= <$t>::MIN as $w && exact <= <$t>::MAX as $w;
            let r = a.$checked(b);
            match &r {
                Ok(v) => assert!(fits && *v as $w == exact),
                Err(_) => assert!(!fits),
            }
            assert!(r.is_ok() || is_ovf(&r));
            assert!(a.$wrapping(b) == exact as $t);
            kani::cover!(fits);
            kani::cover!(!fits);
            std::mem::forget(r);
        }
    };
}
// @unit name=i8_add props=C12 kind=complete fns=ArrowNativeTypeOp<i8>::add_checked,ArrowNativeTypeOp<i8>::add_wrapping
int_binop!(i8_add, i8, i64, add_checked, add_wrapping, +);
// @unit name=i8_sub props=C12 kind=complete fns=ArrowNativeTypeOp<i8>::sub_checked,ArrowNativeTypeOp<i8>::sub_wrapping
int_binop!(i8_sub, i8, i64, sub_checked, sub_wrapping, -);
// @unit name=i8_mul props=C12 kind=complete fns=ArrowNativeTypeOp<i8>::mul_checked,ArrowNativeTypeOp<i8>::mul_wrapping
int_binop!(i8_mul, i8, i64, mul_checked, mul_wrapping, *);
// @unit name=u8_add props=C12 kind=complete fns=ArrowNativeTypeOp<u8>::add_checked,ArrowNativeTypeOp<u8>::add_wrapping
int_binop!(u8_add, u8, i64, add_checked, add_wrapping, +);
// @unit name=u8_sub props=C12 kind=complete fns=ArrowNativeTypeOp<u8>::sub_checked,ArrowNativeTypeOp<u8>::sub_wrapping
int_binop!(u8_sub, u8, i64, sub_checked, sub_wrapping, -);
// @unit name=u8_mul props=C12 kind=complete fns=ArrowNativeTypeOp<u8>::mul_checked,ArrowNativeTypeOp<u8>::mul_wrapping
int_binop!(u8_mul, u8, i64, mul_checked, mul_wrapping, *);
// @unit name=i16_add props=C12 kind=complete fns=ArrowNativeTypeOp<i16>::add_checked,ArrowNativeTypeOp<i16>::add_wrapping
int_binop!(i16_add, i16, i64, add_checked, add_wrapping, +);
// @unit name=i16_sub props=C12 kind=complete fns=ArrowNativeTypeOp<i16>::sub_checked,ArrowNativeTypeOp<i16>::sub_wrapping
int_binop!(i16_sub, i16, i64, sub_checked, sub_wrapping, -);
// @unit name=i16_mul props=C12 kind=complete fns=ArrowNativeTypeOp<i16>::mul_checked,ArrowNativeTypeOp<i16>::mul_wrapping
int_binop!(i16_mul, i16, i64, mul_checked, mul_wrapping, *);
// @unit name=u16_add props=C12 kind=complete fns=ArrowNativeTypeOp<u16>::add_checked,ArrowNativeTypeOp<u16>::add_wrapping
int_binop!(u16_add, u16, i64, add_checked, add_wrapping, +);
// @unit name=u16_sub props=C12 kind=complete fns=ArrowNativeTypeOp<u16>::sub_checked,ArrowNativeTypeOp<u16>::sub_wrapping
int_binop!(u16_sub, u16, i64, sub_checked, sub_wrapping, -);
// @unit name=u16_mul props=C12 kind=complete fns=ArrowNativeTypeOp<u16>::mul_checked,ArrowNativeTypeOp<u16>::mul_wrapping
int_binop!(u16_mul, u16, i64, mul_checked, mul_wrapping, *);
// @unit name=i32_add props=C12 kind=complete fns=ArrowNativeTypeOp<i32>::add_checked,ArrowNativeTypeOp<i32>::add_wrapping
int_binop!(i32_add, i32, i64, add_checked, add_wrapping, +);
// @unit name=i32_sub props=C12 kind=complete fns=ArrowNativeTypeOp<i32>::sub_checked,ArrowNativeTypeOp<i32>::sub_wrapping
int_binop!(i32_sub, i32, i64, sub_checked, sub_wrapping, -);
// @unit name=i32_mul props=C12 kind=complete fns=ArrowNativeTypeOp<i32>::mul_checked,ArrowNativeTypeOp<i32>::mul_wrapping timeout=300
int_binop!(i32_mul, i32, i64, mul_checked, mul_wrapping, *);
// @unit name=u32_add props=C12 kind=complete fns=ArrowNativeTypeOp<u32>::add_checked,ArrowNativeTypeOp<u32>::add_wrapping
int_binop!(u32_add, u32, i64, add_checked, add_wrapping, +);
// @unit name=u32_sub props=C12 kind=complete fns=ArrowNativeTypeOp<u32>::sub_checked,ArrowNativeTypeOp<u32>::sub_wrapping
int_binop!(u32_sub, u32, i64, sub_checked, sub_wrapping, -);
// @unit name=u32_mul props=C12 kind=complete fns=ArrowNativeTypeOp<u32>::mul_checked,ArrowNativeTypeOp<u32>::mul_wrapping timeout=300
int_binop!(u32_mul, u32, u64, mul_checked, mul_wrapping, *);
// @unit name=i64_add props=C12 kind=complete fns=ArrowNativeTypeOp<i64>::add_checked,ArrowNativeTypeOp<i64>::add_wrapping
int_binop!(i64_add, i64, i128, add_checked, add_wrapping, +);
// @unit name=i64_sub props=C12 kind=complete fns=ArrowNativeTypeOp<i64>::sub_checked,ArrowNativeTypeOp<i64>::sub_wrapping
int_binop!(i64_sub, i64, i128, sub_checked, sub_wrapping, -);
// @unit name=i64_mul props=C12 kind=complete fns=ArrowNativeTypeOp<i64>::mul_checked,ArrowNativeTypeOp<i64>::mul_wrapping timeout=600
int_binop!(i64_mul, i64, i128, mul_checked, mul_wrapping, *);
// @unit name=u64_add props=C12 kind=complete fns=ArrowNativeTypeOp<u64>::add_checked,ArrowNativeTypeOp<u64>::add_wrapping
int_binop!(u64_add, u64, i128, add_checked, add_wrapping, +);
// @unit name=u64_sub props=C12 kind=complete fns=ArrowNativeTypeOp<u64>::sub_checked,ArrowNativeTypeOp<u64>::sub_wrapping
int_binop!(u64_sub, u64, i128, sub_checked, sub_wrapping, -);
// @unit name=u64_mul props=C12 kind=complete fns=ArrowNativeTypeOp<u64>::mul_checked,ArrowNativeTypeOp<u64>::mul_wrapping timeout=600
int_binop!(u64_mul, u64, u128, mul_checked, mul_wrapping, *);

// Contract (C12): for all a of type T, with exact = 0 - a computed in a wider integer type:
//   neg_checked(a) = Ok(r) <=> T::MIN <= exact <= T::MAX and r = exact (signed: a != MIN; unsigned: a = 0);
//   otherwise Err(ArithmeticOverflow); neg_wrapping(a) = exact mod 2^w.
macro_rules! int_neg {
    ($name:ident, $t:ty, $w:ty) => {
        #[kani::proof]
        #[kani::stub(alloc::fmt::format, stub_format)]
        fn $name() {
            let a: $t = kani::any();
            let exact: $w = 0 - (a as $w);
            let fits = exact >= <$t>::MIN as $w && exact <= <$t>::MAX as $w;
            let r = a.neg_checked();
            match &r {
                Ok(v) => assert!(fits && *v as $w == exact),
                Err(_) => assert!(!fits),
            }
            assert!(r.is_ok() || is_ovf(&r));
            assert!(a.neg_wrapping() == exact as $t);
            kani::cover!(fits);
            kani::cover!(!fits);
            std::mem::forget(r);
        }
    };
}
// @unit name=i8_neg props=C12 kind=complete fns=ArrowNativeTypeOp<i8>::neg_checked,ArrowNativeTypeOp<i8>::neg_wrapping
int_neg!(i8_neg, i8, i64);
// @unit name=u8_neg props=C12 kind=complete fns=ArrowNativeTypeOp<u8>::neg_checked,ArrowNativeTypeOp<u8>::neg_wrapping
int_neg!(u8_neg, u8, i64);
// @unit name=i16_neg props=C12 kind=complete fns=ArrowNativeTypeOp<i16>::neg_checked,ArrowNativeTypeOp<i16>::neg_wrapping
int_neg!(i16_neg, i16, i64);
// @unit name=u16_neg props=C12 kind=complete fns=ArrowNativeTypeOp<u16>::neg_checked,ArrowNativeTypeOp<u16>::neg_wrapping
int_neg!(u16_neg, u16, i64);
// @unit name=i32_neg props=C12 kind=complete fns=ArrowNativeTypeOp<i32>::neg_checked,ArrowNativeTypeOp<i32>::neg_wrapping
int_neg!(i32_neg, i32, i64);
// @unit name=u32_neg props=C12 kind=complete fns=ArrowNativeTypeOp<u32>::neg_checked,ArrowNativeTypeOp<u32>::neg_wrapping
int_neg!(u32_neg, u32, i64);
// @unit name=i64_neg props=C12 kind=complete fns=ArrowNativeTypeOp<i64>::neg_checked,ArrowNativeTypeOp<i64>::neg_wrapping
int_neg!(i64_neg, i64, i128);
// @unit name=u64_neg props=C12 kind=complete fns=ArrowNativeTypeOp<u64>::neg_checked,ArrowNativeTypeOp<u64>::neg_wrapping
int_neg!(u64_neg, u64, i128);


// ================================================================================================
// C12  div / mod at 8 and 16 bits vs exact truncated division in i32
// ================================================================================================

// Contract (C12): for all a, b of an 8/16-bit type T; q = exact truncated quotient of a by b computed
// in i32 (b != 0):
//   div_checked(a,b) = Err(DivideByZero) <=> b = 0;  = Err(ArithmeticOverflow) <=> b != 0 and q is not
//   representable in T (signed MIN / -1 only);  = Ok(v) <=> b != 0 and q representable, and then v = q.
//   For b != 0 (documented precondition; b = 0 panics): div_wrapping(a,b) = q mod 2^w.
macro_rules! int_div_exact {
    ($name:ident, $t:ty) => {
        #[kani::proof]
        #[kani::stub(alloc::fmt::format, stub_format)]
        fn $name() {
            let a: $t = kani::any();
            let b: $t = kani::any();
            let d = a.div_checked(b);
            assert!(is_dbz(&d) == (b == 0));
            if b != 0 {
                let q = (a as i32) / (b as i32);
                let qfits = q >= <$t>::MIN as i32 && q <= <$t>::MAX as i32;
                match &d {
                    Ok(v) => assert!(qfits && *v as i32 == q),
                    Err(_) => assert!(!qfits),
                }
                assert!(d.is_ok() || is_ovf(&d));
                assert!(a.div_wrapping(b) == q as $t);
                kani::cover!(<$t>::MIN == 0 || (qfits && q < 0));
                kani::cover!(qfits && q > 1);
                kani::cover!(<$t>::MIN == 0 || !qfits); // signed only: the single overflow point MIN / -1
            }
            kani::cover!(b == 0);
            std::mem::forget(d);
        }
    };
}
// Contract (C12): for all a, b of an 8/16-bit type T; (q, r) = exact truncated quotient and remainder
// of a by b computed in i32 (b != 0):
//   mod_checked(a,b) = Err(DivideByZero) <=> b = 0;  = Err(ArithmeticOverflow) <=> b != 0 and the
//   associated quotient q is not representable (signed MIN % -1 only: Rust's checked_rem convention - the
//   remainder 0 itself would be representable, the code reports an error, never a wrong value);
//   = Ok(v) otherwise, and then v = r.  For b != 0: mod_wrapping(a,b) = r (in particular MIN % -1 = 0).
macro_rules! int_mod_exact {
    ($name:ident, $t:ty) => {
        #[kani::proof]
        #[kani::stub(alloc::fmt::format, stub_format)]
        fn $name() {
            let a: $t = kani::any();
            let b: $t = kani::any();
            let m = a.mod_checked(b);
            assert!(is_dbz(&m) == (b == 0));
            if b != 0 {
                let (q, r) = ((a as i32) / (b as i32), (a as i32) % (b as i32));
                let qfits = q >= <$t>::MIN as i32 && q <= <$t>::MAX as i32;
                match &m {
                    Ok(v) => assert!(qfits && *v as i32 == r),
                    Err(_) => assert!(!qfits),
                }
                assert!(m.is_ok() || is_ovf(&m));
                assert!(a.mod_wrapping(b) as i32 == r);
                kani::cover!(qfits && r < 0 || <$t>::MIN == 0);
                kani::cover!(qfits && r > 0);
                kani::cover!(<$t>::MIN == 0 || !qfits);
            }
            kani::cover!(b == 0);
            std::mem::forget(m);
        }
    };
}
// Lemma (spec validation, C12): the wide `/` and `%` used as the spec above are the mathematical
// truncated division: (q, r) is the unique pair with a = q*b + r, |r| < |b|, r = 0 or sign(r) = sign(a).
macro_rules! trunc_div_lemma {
    ($name:ident, $t:ty) => {
        #[kani::proof]
        fn $name() {
            let a: $t = kani::any();
            let b: $t = kani::any();
            kani::assume(b != 0);
            let (wa, wb) = (a as i32, b as i32);
            let (q, r) = (wa / wb, wa % wb);
            assert!(q * wb + r == wa && r.abs() < wb.abs() && (r == 0 || (r < 0) == (wa < 0)));
            // uniqueness: any other (q2, r2) with the same three properties equals (q, r)
            let q2: i32 = kani::any();
            kani::assume(q2 >= -65536 && q2 <= 65536);
            let r2 = wa - q2 * wb;
            if r2.abs() < wb.abs() && (r2 == 0 || (r2 < 0) == (wa < 0)) {
                assert!(q2 == q && r2 == r);
            }
            kani::cover!(r != 0 && (q < 0 || <$t>::MIN == 0));
        }
    };
}
// @unit name=i8_div props=C12 kind=complete fns=ArrowNativeTypeOp<i8>::div_checked,ArrowNativeTypeOp<i8>::div_wrapping
int_div_exact!(i8_div, i8);
// @unit name=u8_div props=C12 kind=complete fns=ArrowNativeTypeOp<u8>::div_checked,ArrowNativeTypeOp<u8>::div_wrapping
int_div_exact!(u8_div, u8);
// @unit name=i16_div props=C12 kind=complete fns=ArrowNativeTypeOp<i16>::div_checked,ArrowNativeTypeOp<i16>::div_wrapping tier=thorough timeout=900
int_div_exact!(i16_div, i16);
// @unit name=u16_div props=C12 kind=complete fns=ArrowNativeTypeOp<u16>::div_checked,ArrowNativeTypeOp<u16>::div_wrapping tier=thorough timeout=900 confirmed=0
int_div_exact!(u16_div, u16);
// @unit name=i8_mod props=C12 kind=complete fns=ArrowNativeTypeOp<i8>::mod_checked,ArrowNativeTypeOp<i8>::mod_wrapping
int_mod_exact!(i8_mod, i8);
// @unit name=u8_mod props=C12 kind=complete fns=ArrowNativeTypeOp<u8>::mod_checked,ArrowNativeTypeOp<u8>::mod_wrapping
int_mod_exact!(u8_mod, u8);
// @unit name=i16_mod props=C12 kind=complete fns=ArrowNativeTypeOp<i16>::mod_checked,ArrowNativeTypeOp<i16>::mod_wrapping tier=thorough timeout=900 confirmed=0
int_mod_exact!(i16_mod, i16);
// @unit name=u16_mod props=C12 kind=complete fns=ArrowNativeTypeOp<u16>::mod_checked,ArrowNativeTypeOp<u16>::mod_wrapping tier=thorough timeout=900 confirmed=0
int_mod_exact!(u16_mod, u16);
// @unit name=trunc_div_lemma_i8 props=C12 kind=complete fns=ArrowNativeTypeOp<i8>::div_checked,ArrowNativeTypeOp<i8>::mod_checked
trunc_div_lemma!(trunc_div_lemma_i8, i8);
// @unit name=trunc_div_lemma_u8 props=C12 kind=complete fns=ArrowNativeTypeOp<u8>::div_checked,ArrowNativeTypeOp<u8>::mod_checked
trunc_div_lemma!(trunc_div_lemma_u8, u8);

// ================================================================================================
// C12  div / mod at >= 32 bits (and i128): error structure exact, values by divider-free facts
// ================================================================================================

// Contract (C12) at widths where CBMC cannot compare two dividers (measured: i32 quotient vs i64
// quotient, core's checked_div against itself, and even checked_div against wrapping_div of the same
// operands do not finish - a divider is encoded with fresh quotient/remainder variables constrained by
// a multiplication, so two instances are never shared).  For all a, b:
//   div_checked / mod_checked = Err(DivideByZero) <=> b = 0;  = Err(ArithmeticOverflow) <=> a = MIN and
//   b = -1 (signed; never for unsigned) - the only point whose exact quotient is not representable;
//   = Ok otherwise.  For b != 0: div_wrapping / mod_wrapping do not panic; MIN / -1 wraps to MIN, MIN % -1 = 0.
//   VALUE of the quotient q and remainder r: ASSUMPTION - core's `/` and `%` are trusted at this width
//   (the same macro expansion is proved exact at 8 and 16 bits above); pinned here by facts that need no
//   second divider: |r| < |b|, r = 0 or sign(r) = sign(a);  b = 1 => (q, r) = (a, 0) for the checked and
//   the wrapping forms;  b = -1 => (-a, 0)  (so swapped operands or a dropped negation are visible).
// $w is a wider signed type used only to take absolute values and compare.
macro_rules! int_divmod_wide {
    ($name:ident, $t:ty, $w:ty) => {
        #[kani::proof]
        #[kani::stub(alloc::fmt::format, stub_format)]
        fn $name() {
            let a: $t = kani::any();
            let b: $t = kani::any();
            let d = a.div_checked(b);
            let m = a.mod_checked(b);
            assert!(is_dbz(&d) == (b == 0) && is_dbz(&m) == (b == 0));
            let signed = <$t>::MIN != 0;
            let (wa, wb) = (a as $w, b as $w);
            let min_by_m1 = signed && a == <$t>::MIN && wb == -1;
            if b != 0 {
                assert!(is_ovf(&d) == min_by_m1 && is_ovf(&m) == min_by_m1);
                assert!(d.is_ok() == !min_by_m1 && m.is_ok() == !min_by_m1);
                if min_by_m1 { assert!(a.div_wrapping(b) == <$t>::MIN && a.mod_wrapping(b) == 0); }
                if wb == 1 { assert!(a.div_wrapping(b) == a && a.mod_wrapping(b) == 0); }
                if let (Ok(q), Ok(r)) = (&d, &m) {
                    let (q, r) = (*q as $w, *r as $w);
                    assert!(r.abs() < wb.abs() && (r == 0 || (r < 0) == (wa < 0)));
                    if wb == 1 { assert!(q == wa && r == 0); }
                    if wb == -1 { assert!(q == -wa && r == 0); }
                }
            }
            kani::cover!(b == 0);
            kani::cover!(d.is_ok() && wa.abs() > wb.abs() && wb.abs() > 2);
            kani::cover!(!signed || min_by_m1);
            std::mem::forget((d, m));
        }
    };
}
// @unit name=i32_divmod props=C12 kind=complete fns=ArrowNativeTypeOp<i32>::div_checked,ArrowNativeTypeOp<i32>::div_wrapping,ArrowNativeTypeOp<i32>::mod_checked,ArrowNativeTypeOp<i32>::mod_wrapping
int_divmod_wide!(i32_divmod, i32, i64);
// @unit name=u32_divmod props=C12 kind=complete fns=ArrowNativeTypeOp<u32>::div_checked,ArrowNativeTypeOp<u32>::div_wrapping,ArrowNativeTypeOp<u32>::mod_checked,ArrowNativeTypeOp<u32>::mod_wrapping
int_divmod_wide!(u32_divmod, u32, i64);
// @unit name=i64_divmod props=C12 kind=complete fns=ArrowNativeTypeOp<i64>::div_checked,ArrowNativeTypeOp<i64>::div_wrapping,ArrowNativeTypeOp<i64>::mod_checked,ArrowNativeTypeOp<i64>::mod_wrapping
int_divmod_wide!(i64_divmod, i64, i128);
// @unit name=u64_divmod props=C12 kind=complete fns=ArrowNativeTypeOp<u64>::div_checked,ArrowNativeTypeOp<u64>::div_wrapping,ArrowNativeTypeOp<u64>::mod_checked,ArrowNativeTypeOp<u64>::mod_wrapping
int_divmod_wide!(u64_divmod, u64, i128);

// Contract (C12) for i128 div/mod: as above (error structure exact: DivideByZero <=> b = 0, Overflow <=>
// a = MIN and b = -1, wrapping forms at that point MIN and 0); values pinned by: r = 0 or sign(r) =
// sign(a); b = 1 => (a, 0) (checked and wrapping); b = -1 => r = 0.  ASSUMPTION: core's 128-bit `/` `%`
// trusted for the value.
// @unit name=i128_divmod props=C12 kind=complete fns=ArrowNativeTypeOp<i128>::div_checked,ArrowNativeTypeOp<i128>::div_wrapping,ArrowNativeTypeOp<i128>::mod_checked,ArrowNativeTypeOp<i128>::mod_wrapping timeout=1500
#[kani::proof]
#[kani::stub(alloc::fmt::format, stub_format)]
fn i128_divmod() {
    let a: i128 = kani::any();
    let b: i128 = kani::any();
    let d = a.div_checked(b);
    let m = a.mod_checked(b);
    assert!(is_dbz(&d) == (b == 0) && is_dbz(&m) == (b == 0));
    let min_by_m1 = a == i128::MIN && b == -1;
    if b != 0 {
        assert!(is_ovf(&d) == min_by_m1 && is_ovf(&m) == min_by_m1);
        assert!(d.is_ok() == !min_by_m1 && m.is_ok() == !min_by_m1);
        if min_by_m1 { assert!(a.div_wrapping(b) == i128::MIN && a.mod_wrapping(b) == 0); }
        if b == 1 { assert!(a.div_wrapping(b) == a && a.mod_wrapping(b) == 0); }
        if let (Ok(q), Ok(r)) = (&d, &m) {
            assert!(*r == 0 || (*r < 0) == (a < 0));
            if b == 1 { assert!(*q == a && *r == 0); }
            if b == -1 { assert!(*r == 0); }
        }
    }
    kani::cover!(b == 0);
    kani::cover!(d.is_ok() && b > 2 && a > b);
    kani::cover!(min_by_m1);
    std::mem::forget((d, m));
}

/// two base-2^64 digits of an i128, most significant one signed (same model as support/i256_spec.rs)
fn add128_spec(a: i128, b: i128, sub: bool) -> (i128, bool) {
    let (al, ah, bl, bh) = (a as u64 as i128, (a >> 64) as i64 as i128, b as u64 as i128, (b >> 64) as i64 as i128);
    let s0 = if sub { al - bl } else { al + bl };
    let t = if sub { ah - bh } else { ah + bh } + (s0 >> 64);
    let ovf = t < i64::MIN as i128 || t > i64::MAX as i128;
    ((((t as u64 as u128) << 64) | (s0 as u64 as u128)) as i128, ovf)
}
// Contract (C12): i128 add / sub / neg against schoolbook arithmetic on two base-2^64 digits (top digit
// signed, carries in i128 - no primitive is wider than 128 bits): op_checked = Ok(s) <=> the exact
// result lies in [i128::MIN, i128::MAX] and s is it, else Err(ArithmeticOverflow); op_wrapping = exact
// result mod 2^128; neg_checked(a) fails exactly for a = MIN.
// @unit name=i128_addsub props=C12 kind=complete fns=ArrowNativeTypeOp<i128>::add_checked,ArrowNativeTypeOp<i128>::add_wrapping,ArrowNativeTypeOp<i128>::sub_checked,ArrowNativeTypeOp<i128>::sub_wrapping,ArrowNativeTypeOp<i128>::neg_checked,ArrowNativeTypeOp<i128>::neg_wrapping
#[kani::proof]
#[kani::stub(alloc::fmt::format, stub_format)]
fn i128_addsub() {
    let a: i128 = kani::any();
    let b: i128 = kani::any();
    let (s, so) = add128_spec(a, b, false);
    let (t, to) = add128_spec(a, b, true);
    let (n, no) = add128_spec(0, a, true);
    let (ra, rs, rn) = (a.add_checked(b), a.sub_checked(b), a.neg_checked());
    assert!(matches!(ra, Ok(v) if v == s) == !so && is_ovf(&ra) == so && a.add_wrapping(b) == s);
    assert!(matches!(rs, Ok(v) if v == t) == !to && is_ovf(&rs) == to && a.sub_wrapping(b) == t);
    assert!(matches!(rn, Ok(v) if v == n) == !no && is_ovf(&rn) == no && a.neg_wrapping() == n);
    assert!(no == (a == i128::MIN));
    kani::cover!(so && a > 0);
    kani::cover!(so && a < 0);
    kani::cover!(to);
    kani::cover!(!so && (a as u64).checked_add(b as u64).is_none());
    std::mem::forget((ra, rs, rn));
}
// Contract (C12), bounded: i128 mul.  The exact 256-bit product is out of reach, and core's checked_mul
// against itself did not finish either, so: (a) for operands in the i64 range (sign extensions of i64
// values) the product is exact in i128: mul_checked = Ok(a*b), mul_wrapping = a*b, never Err;  (b) for
// ALL a and pinned b: b = 0 => Ok(0); b = 1 => Ok(a); b = -1 => Ok(-a) unless a = MIN (Err(Overflow), wrapping
// MIN); b = 2 => Ok(a + a) iff that sum does not overflow (digit-model sum), else Err(Overflow), wrapping =
// sum mod 2^128.
// @unit name=i128_mul props=C12 kind=bounded bound=operands_in_i64_range_(plus_all_a_for_b_in_0,1,-1,2) fns=ArrowNativeTypeOp<i128>::mul_checked,ArrowNativeTypeOp<i128>::mul_wrapping timeout=1500
#[kani::proof]
#[kani::stub(alloc::fmt::format, stub_format)]
fn i128_mul() {
    let (x, y): (i64, i64) = (kani::any(), kani::any());
    let exact = x as i128 * y as i128;
    let r0 = (x as i128).mul_checked(y as i128);
    assert!(matches!(r0, Ok(v) if v == exact) && (x as i128).mul_wrapping(y as i128) == exact);
    let a: i128 = kani::any();
    let k: u8 = kani::any();
    kani::assume(k < 4);
    let b: i128 = if k == 0 { 0 } else if k == 1 { 1 } else if k == 2 { -1 } else { 2 };
    let r = a.mul_checked(b);
    let w = a.mul_wrapping(b);
    if k == 0 { assert!(matches!(r, Ok(0)) && w == 0); }
    if k == 1 { assert!(matches!(r, Ok(v) if v == a) && w == a); }
    if k == 2 { let (n, o) = add128_spec(0, a, true); assert!(w == n && if o { is_ovf(&r) } else { matches!(r, Ok(v) if v == n) }); }
    if k == 3 { let (s2, o) = add128_spec(a, a, false); assert!(w == s2 && if o { is_ovf(&r) } else { matches!(r, Ok(v) if v == s2) }); }
    kani::cover!(k == 2 && r.is_err());
    kani::cover!(k == 3 && r.is_err());
    kani::cover!(k == 3 && r.is_ok() && a < -5);
    kani::cover!(exact < i64::MIN as i128);
    std::mem::forget((r0, r));
}

// ================================================================================================
// C12  pow
// ================================================================================================

/// exact a^exp if it lies in [min, max], else None.  a in {0, 1, -1}: closed form.  |a| >= 2: then
/// |a|^exp >= 2^exp, so exp >= w (with max < 2^w) is out of range, and for exp < w the naive product
/// is formed step by step; since |a| >= 2 the magnitude strictly grows, so once a prefix product is
/// out of range (magnitude >= 2^(w-1)) every longer product is too.  No step overflows i64 for w <= 16.
fn pow_exact(a: i64, exp: u32, min: i64, max: i64, w: u32) -> Option<i64> {
    if a == 0 { return Some(if exp == 0 { 1 } else { 0 }); }
    if a == 1 { return Some(1); }
    if a == -1 { return Some(if exp % 2 == 0 { 1 } else { -1 }); }
    if exp >= w { return None; }
    let mut acc: i64 = 1;
    let mut i = 0;
    while i < exp {
        acc *= a;
        if acc < min || acc > max { return None; }
        i += 1;
    }
    Some(acc)
}

// Contract (C12): for all a of an 8/16-bit type T and ALL exponents exp: u32:
//   pow_checked(a, exp) = Ok(r) <=> the exact power a^exp (0^0 = 1) lies in [T::MIN, T::MAX], and then
//   r = a^exp; otherwise Err(ArithmeticOverflow).  Whenever the exact power is representable,
//   pow_wrapping(a, exp) equals it.  (Exact power: `pow_exact` above - repeated multiplication in i64.)
macro_rules! int_pow_checked {
    ($name:ident, $t:ty, $w:expr) => {
        #[kani::proof]
        #[kani::unwind(34)]
        #[kani::stub(alloc::fmt::format, stub_format)]
        fn $name() {
            let a: $t = kani::any();
            let exp: u32 = kani::any();
            let want = pow_exact(a as i64, exp, <$t>::MIN as i64, <$t>::MAX as i64, $w);
            let r = a.pow_checked(exp);
            match (&r, want) {
                (Ok(v), Some(e)) => assert!(*v as i64 == e && a.pow_wrapping(exp) as i64 == e),
                (Err(_), None) => assert!(is_ovf(&r)),
                _ => assert!(false),
            }
            kani::cover!(want.is_some() && exp > 3 && a > 1);
            kani::cover!(want.is_none() && exp < $w);
            kani::cover!(want.is_none() && exp > 1000);
            kani::cover!(want.is_some() && exp > 1000);
            std::mem::forget(r);
        }
    };
}
// @unit name=i8_pow_checked props=C12 kind=complete fns=ArrowNativeTypeOp<i8>::pow_checked,ArrowNativeTypeOp<i8>::pow_wrapping
int_pow_checked!(i8_pow_checked, i8, 8);
// @unit name=u8_pow_checked props=C12 kind=complete fns=ArrowNativeTypeOp<u8>::pow_checked,ArrowNativeTypeOp<u8>::pow_wrapping
int_pow_checked!(u8_pow_checked, u8, 8);
// @unit name=i16_pow_checked props=C12 kind=complete fns=ArrowNativeTypeOp<i16>::pow_checked,ArrowNativeTypeOp<i16>::pow_wrapping tier=thorough timeout=900
int_pow_checked!(i16_pow_checked, i16, 16);
// @unit name=u16_pow_checked props=C12 kind=complete fns=ArrowNativeTypeOp<u16>::pow_checked,ArrowNativeTypeOp<u16>::pow_wrapping tier=thorough timeout=900
int_pow_checked!(u16_pow_checked, u16, 16);

// Contract (C12): for all a of an 8/16-bit type T and exp <= 8: pow_wrapping(a, exp) = a^exp mod 2^w,
// the spec being the naive exp-fold product in i64 reduced mod 2^w after each step (reduction mod 2^w
// is a ring homomorphism).  Bounded in the exponent only; the unbounded-exponent statement for
// representable powers is in T_pow_checked.
macro_rules! int_pow_wrapping {
    ($name:ident, $t:ty) => {
        #[kani::proof]
        #[kani::unwind(34)]
        fn $name() {
            let a: $t = kani::any();
            let exp: u32 = kani::any();
            kani::assume(exp <= 8);
            let mut acc: i64 = 1;
            let mut i = 0;
            while i < exp {
                acc = ((acc * (a as i64)) as $t) as i64;
                i += 1;
            }
            assert!(a.pow_wrapping(exp) == acc as $t);
            kani::cover!(exp == 8 && a.pow_wrapping(exp) != 0 && a != 1);
            kani::cover!(exp == 0);
        }
    };
}
// @unit name=i8_pow_wrapping props=C12 kind=bounded bound=exp<=8 fns=ArrowNativeTypeOp<i8>::pow_wrapping
int_pow_wrapping!(i8_pow_wrapping, i8);
// @unit name=u8_pow_wrapping props=C12 kind=bounded bound=exp<=8 fns=ArrowNativeTypeOp<u8>::pow_wrapping
int_pow_wrapping!(u8_pow_wrapping, u8);
// @unit name=i16_pow_wrapping props=C12 kind=bounded bound=exp<=8 fns=ArrowNativeTypeOp<i16>::pow_wrapping tier=thorough timeout=900
int_pow_wrapping!(i16_pow_wrapping, i16);
// @unit name=u16_pow_wrapping props=C12 kind=bounded bound=exp<=8 fns=ArrowNativeTypeOp<u16>::pow_wrapping tier=thorough timeout=900
int_pow_wrapping!(u16_pow_wrapping, u16);

// Contract (C12) for pow at >= 32 bits, bounded in the exponent: for each exponent e in {0, 1, 2} and
// all a: pow_checked(a, e) = Ok(r) <=> the exact power (1, a, a*a computed in the wide type $w) is
// representable, and then r is it, else Err(ArithmeticOverflow); pow_wrapping = exact power mod 2^w.
// (Symbolic larger exponents at this width did not finish: 32 unrolled wide squarings.)
macro_rules! int_pow_exp012 {
    ($name:ident, $t:ty, $w:ty) => {
        #[kani::proof]
        #[kani::unwind(4)]
        #[kani::stub(alloc::fmt::format, stub_format)]
        fn $name() {
            let a: $t = kani::any();
            let wa = a as $w;
            let (r0, r1, r2) = (a.pow_checked(0), a.pow_checked(1), a.pow_checked(2));
            assert!(matches!(r0, Ok(1)) && a.pow_wrapping(0) == 1);
            assert!(matches!(r1, Ok(v) if v == a) && a.pow_wrapping(1) == a);
            let exact: $w = wa * wa;
            let fits = exact >= <$t>::MIN as $w && exact <= <$t>::MAX as $w;
            match &r2 {
                Ok(v) => assert!(fits && *v as $w == exact),
                Err(_) => assert!(!fits && is_ovf(&r2)),
            }
            assert!(a.pow_wrapping(2) == exact as $t);
            kani::cover!(!fits);
            kani::cover!(fits && wa > 1000);
            std::mem::forget((r0, r1, r2));
        }
    };
}
// Contract (C12): powers of two at the representability edge, for ALL exponents e: u32:
// pow_checked(2, e) = Ok(1 << e) <=> 2^e <= T::MAX (e <= w-2 signed, e <= w-1 unsigned), else
// Err(ArithmeticOverflow); pow_wrapping(2, e) = 1 << e for e < w and 0 for e >= w; and for signed T
// pow_checked(-2, w-1) = Ok(T::MIN).  (Catches checked <-> wrapping swaps at any exponent.)
macro_rules! int_pow_two {
    ($name:ident, $t:ty) => {
        #[kani::proof]
        #[kani::unwind(34)]
        #[kani::stub(alloc::fmt::format, stub_format)]
        fn $name() {
            let e: u32 = kani::any();
            let two: $t = 2;
            let bits = <$t>::BITS;
            let signed = <$t>::MIN != 0;
            let max_e = if signed { bits - 2 } else { bits - 1 };
            let p = two.pow_checked(e);
            if e <= max_e { assert!(matches!(p, Ok(v) if v == (1 as $t) << e)); } else { assert!(is_ovf(&p)); }
            assert!(two.pow_wrapping(e) == if e < bits { (1 as $t) << e } else { 0 });
            if signed {
                let m2: $t = (0 as $t).wrapping_sub(2);
                let q = m2.pow_checked(bits - 1);
                assert!(matches!(q, Ok(v) if v == <$t>::MIN));
                std::mem::forget(q);
            }
            kani::cover!(e == max_e);
            kani::cover!(e == max_e + 1);
            kani::cover!(e > 1000);
            std::mem::forget(p);
        }
    };
}
// @unit name=i32_pow props=C12 kind=bounded bound=exp<=2 fns=ArrowNativeTypeOp<i32>::pow_checked,ArrowNativeTypeOp<i32>::pow_wrapping
int_pow_exp012!(i32_pow, i32, i64);
// @unit name=u32_pow props=C12 kind=bounded bound=exp<=2 fns=ArrowNativeTypeOp<u32>::pow_checked,ArrowNativeTypeOp<u32>::pow_wrapping
int_pow_exp012!(u32_pow, u32, u64);
// @unit name=i64_pow props=C12 kind=bounded bound=exp<=2 fns=ArrowNativeTypeOp<i64>::pow_checked,ArrowNativeTypeOp<i64>::pow_wrapping timeout=900
int_pow_exp012!(i64_pow, i64, i128);
// @unit name=u64_pow props=C12 kind=bounded bound=exp<=2 fns=ArrowNativeTypeOp<u64>::pow_checked,ArrowNativeTypeOp<u64>::pow_wrapping timeout=900
int_pow_exp012!(u64_pow, u64, u128);
// @unit name=i32_pow_two props=C12 kind=bounded bound=base_2_(all_exponents) fns=ArrowNativeTypeOp<i32>::pow_checked,ArrowNativeTypeOp<i32>::pow_wrapping
int_pow_two!(i32_pow_two, i32);
// @unit name=u32_pow_two props=C12 kind=bounded bound=base_2_(all_exponents) fns=ArrowNativeTypeOp<u32>::pow_checked,ArrowNativeTypeOp<u32>::pow_wrapping
int_pow_two!(u32_pow_two, u32);
// @unit name=i64_pow_two props=C12 kind=bounded bound=base_2_(all_exponents) fns=ArrowNativeTypeOp<i64>::pow_checked,ArrowNativeTypeOp<i64>::pow_wrapping
int_pow_two!(i64_pow_two, i64);
// @unit name=u64_pow_two props=C12 kind=bounded bound=base_2_(all_exponents) fns=ArrowNativeTypeOp<u64>::pow_checked,ArrowNativeTypeOp<u64>::pow_wrapping
int_pow_two!(u64_pow_two, u64);
// @unit name=i128_pow_two props=C12 kind=bounded bound=base_2_(all_exponents) fns=ArrowNativeTypeOp<i128>::pow_checked,ArrowNativeTypeOp<i128>::pow_wrapping
int_pow_two!(i128_pow_two, i128);

// ================================================================================================
// C10  integer order and its projections; constants
// ================================================================================================

// Contract (C10): for all a, b of integer type T: compare(a,b) is the mathematical order of the two
// integers (evaluated with `<` / `==` on their values widened to i128; for i128 on the values
// themselves), and is_eq / is_ne / is_lt / is_le / is_gt / is_ge are exactly its six projections.
macro_rules! int_order {
    ($name:ident, $t:ty) => {
        #[kani::proof]
        fn $name() {
            let a: $t = kani::any();
            let b: $t = kani::any();
            let (wa, wb) = (a as i128, b as i128);
            let want = if wa < wb { Ordering::Less } else if wa == wb { Ordering::Equal } else { Ordering::Greater };
            assert!(a.compare(b) == want);
            assert!(a.is_eq(b) == (wa == wb));
            assert!(a.is_ne(b) == (wa != wb));
            assert!(a.is_lt(b) == (wa < wb));
            assert!(a.is_le(b) == (wa <= wb));
            assert!(a.is_gt(b) == (wa > wb));
            assert!(a.is_ge(b) == (wa >= wb));
            kani::cover!(wa < wb);
            kani::cover!(wa == wb);
            kani::cover!(wa > wb);
        }
    };
}
// @unit name=i8_order props=C10 kind=complete fns=ArrowNativeTypeOp<i8>::compare,ArrowNativeTypeOp<i8>::is_eq,ArrowNativeTypeOp::is_ne,ArrowNativeTypeOp::is_lt,ArrowNativeTypeOp::is_le,ArrowNativeTypeOp::is_gt,ArrowNativeTypeOp::is_ge
int_order!(i8_order, i8);
// @unit name=u8_order props=C10 kind=complete fns=ArrowNativeTypeOp<u8>::compare,ArrowNativeTypeOp<u8>::is_eq,ArrowNativeTypeOp::is_ne,ArrowNativeTypeOp::is_lt,ArrowNativeTypeOp::is_le,ArrowNativeTypeOp::is_gt,ArrowNativeTypeOp::is_ge
int_order!(u8_order, u8);
// @unit name=i16_order props=C10 kind=complete fns=ArrowNativeTypeOp<i16>::compare,ArrowNativeTypeOp<i16>::is_eq,ArrowNativeTypeOp::is_ne,ArrowNativeTypeOp::is_lt,ArrowNativeTypeOp::is_le,ArrowNativeTypeOp::is_gt,ArrowNativeTypeOp::is_ge
int_order!(i16_order, i16);
// @unit name=u16_order props=C10 kind=complete fns=ArrowNativeTypeOp<u16>::compare,ArrowNativeTypeOp<u16>::is_eq,ArrowNativeTypeOp::is_ne,ArrowNativeTypeOp::is_lt,ArrowNativeTypeOp::is_le,ArrowNativeTypeOp::is_gt,ArrowNativeTypeOp::is_ge
int_order!(u16_order, u16);
// @unit name=i32_order props=C10 kind=complete fns=ArrowNativeTypeOp<i32>::compare,ArrowNativeTypeOp<i32>::is_eq,ArrowNativeTypeOp::is_ne,ArrowNativeTypeOp::is_lt,ArrowNativeTypeOp::is_le,ArrowNativeTypeOp::is_gt,ArrowNativeTypeOp::is_ge
int_order!(i32_order, i32);
// @unit name=u32_order props=C10 kind=complete fns=ArrowNativeTypeOp<u32>::compare,ArrowNativeTypeOp<u32>::is_eq,ArrowNativeTypeOp::is_ne,ArrowNativeTypeOp::is_lt,ArrowNativeTypeOp::is_le,ArrowNativeTypeOp::is_gt,ArrowNativeTypeOp::is_ge
int_order!(u32_order, u32);
// @unit name=i64_order props=C10 kind=complete fns=ArrowNativeTypeOp<i64>::compare,ArrowNativeTypeOp<i64>::is_eq,ArrowNativeTypeOp::is_ne,ArrowNativeTypeOp::is_lt,ArrowNativeTypeOp::is_le,ArrowNativeTypeOp::is_gt,ArrowNativeTypeOp::is_ge
int_order!(i64_order, i64);
// @unit name=u64_order props=C10 kind=complete fns=ArrowNativeTypeOp<u64>::compare,ArrowNativeTypeOp<u64>::is_eq,ArrowNativeTypeOp::is_ne,ArrowNativeTypeOp::is_lt,ArrowNativeTypeOp::is_le,ArrowNativeTypeOp::is_gt,ArrowNativeTypeOp::is_ge
int_order!(u64_order, u64);
// @unit name=i128_order props=C10 kind=complete fns=ArrowNativeTypeOp<i128>::compare,ArrowNativeTypeOp<i128>::is_eq,ArrowNativeTypeOp::is_ne,ArrowNativeTypeOp::is_lt,ArrowNativeTypeOp::is_le,ArrowNativeTypeOp::is_gt,ArrowNativeTypeOp::is_ge
int_order!(i128_order, i128);

// Contract (C12, C10): for integer type T: ZERO = 0 and ONE = 1 (additive / multiplicative identities:
// a + ZERO = a, a * ONE = a for all a), is_zero(a) <=> a = 0, and MIN_TOTAL_ORDER / MAX_TOTAL_ORDER are
// the least / greatest element under `compare` (the identities of the max / min aggregations).
macro_rules! int_consts {
    ($name:ident, $t:ty) => {
        #[kani::proof]
        #[kani::stub(alloc::fmt::format, stub_format)]
        fn $name() {
            let a: $t = kani::any();
            assert!(<$t as ArrowNativeTypeOp>::ZERO == 0 && <$t as ArrowNativeTypeOp>::ONE == 1);
            assert!(a.is_zero() == (a == 0));
            assert!(a.add_wrapping(<$t as ArrowNativeTypeOp>::ZERO) == a);
            assert!(a.mul_wrapping(<$t as ArrowNativeTypeOp>::ONE) == a);
            assert!(<$t as ArrowNativeTypeOp>::MIN_TOTAL_ORDER == <$t>::MIN && <$t as ArrowNativeTypeOp>::MAX_TOTAL_ORDER == <$t>::MAX);
            assert!(<$t as ArrowNativeTypeOp>::MIN_TOTAL_ORDER.compare(a) != Ordering::Greater);
            assert!(<$t as ArrowNativeTypeOp>::MAX_TOTAL_ORDER.compare(a) != Ordering::Less);
            kani::cover!(a.is_zero());
            kani::cover!(!a.is_zero());
        }
    };
}
// @unit name=i8_consts props=C12,C10 kind=complete fns=ArrowNativeTypeOp<i8>::is_zero,ArrowNativeTypeOp<i8>::ZERO,ArrowNativeTypeOp<i8>::ONE,ArrowNativeTypeOp<i8>::MIN_TOTAL_ORDER,ArrowNativeTypeOp<i8>::MAX_TOTAL_ORDER
int_consts!(i8_consts, i8);
// @unit name=u8_consts props=C12,C10 kind=complete fns=ArrowNativeTypeOp<u8>::is_zero,ArrowNativeTypeOp<u8>::ZERO,ArrowNativeTypeOp<u8>::ONE,ArrowNativeTypeOp<u8>::MIN_TOTAL_ORDER,ArrowNativeTypeOp<u8>::MAX_TOTAL_ORDER
int_consts!(u8_consts, u8);
// @unit name=i16_consts props=C12,C10 kind=complete fns=ArrowNativeTypeOp<i16>::is_zero,ArrowNativeTypeOp<i16>::ZERO,ArrowNativeTypeOp<i16>::ONE,ArrowNativeTypeOp<i16>::MIN_TOTAL_ORDER,ArrowNativeTypeOp<i16>::MAX_TOTAL_ORDER
int_consts!(i16_consts, i16);
// @unit name=u16_consts props=C12,C10 kind=complete fns=ArrowNativeTypeOp<u16>::is_zero,ArrowNativeTypeOp<u16>::ZERO,ArrowNativeTypeOp<u16>::ONE,ArrowNativeTypeOp<u16>::MIN_TOTAL_ORDER,ArrowNativeTypeOp<u16>::MAX_TOTAL_ORDER
int_consts!(u16_consts, u16);
// @unit name=i32_consts props=C12,C10 kind=complete fns=ArrowNativeTypeOp<i32>::is_zero,ArrowNativeTypeOp<i32>::ZERO,ArrowNativeTypeOp<i32>::ONE,ArrowNativeTypeOp<i32>::MIN_TOTAL_ORDER,ArrowNativeTypeOp<i32>::MAX_TOTAL_ORDER
int_consts!(i32_consts, i32);
// @unit name=u32_consts props=C12,C10 kind=complete fns=ArrowNativeTypeOp<u32>::is_zero,ArrowNativeTypeOp<u32>::ZERO,ArrowNativeTypeOp<u32>::ONE,ArrowNativeTypeOp<u32>::MIN_TOTAL_ORDER,ArrowNativeTypeOp<u32>::MAX_TOTAL_ORDER
int_consts!(u32_consts, u32);
// @unit name=i64_consts props=C12,C10 kind=complete fns=ArrowNativeTypeOp<i64>::is_zero,ArrowNativeTypeOp<i64>::ZERO,ArrowNativeTypeOp<i64>::ONE,ArrowNativeTypeOp<i64>::MIN_TOTAL_ORDER,ArrowNativeTypeOp<i64>::MAX_TOTAL_ORDER
int_consts!(i64_consts, i64);
// @unit name=u64_consts props=C12,C10 kind=complete fns=ArrowNativeTypeOp<u64>::is_zero,ArrowNativeTypeOp<u64>::ZERO,ArrowNativeTypeOp<u64>::ONE,ArrowNativeTypeOp<u64>::MIN_TOTAL_ORDER,ArrowNativeTypeOp<u64>::MAX_TOTAL_ORDER
int_consts!(u64_consts, u64);
// @unit name=i128_consts props=C12,C10 kind=complete fns=ArrowNativeTypeOp<i128>::is_zero,ArrowNativeTypeOp<i128>::ZERO,ArrowNativeTypeOp<i128>::ONE,ArrowNativeTypeOp<i128>::MIN_TOTAL_ORDER,ArrowNativeTypeOp<i128>::MAX_TOTAL_ORDER
int_consts!(i128_consts, i128);

// ================================================================================================
// C10  floats: IEEE-754 totalOrder
// ================================================================================================

// Contract (C10): for all bit patterns a, b, c of float type F (NaNs of every payload and sign, +-0,
// subnormals, infinities): compare(a,b) = cmp(key(a), key(b)) where key is the textbook totalOrder key
// (sign-magnitude -> two's complement integer, spec.rs); is_eq(a,b) <=> compare = Equal <=> the bit
// patterns are equal (so NaN is_eq the same NaN and -0 is_ne +0); is_ne/lt/le/gt/ge are the projections
// of the key order; compare is reflexive, antisymmetric, transitive and total; on non-NaN operands it
// extends the numeric `<`; -0 < +0; -NaN < -inf and +inf < +NaN.  ZERO/ONE bit patterns,
// is_zero(a) <=> a = +-0, MIN_TOTAL_ORDER / MAX_TOTAL_ORDER are the least / greatest keys.
macro_rules! float_order {
    ($name:ident, $t:ty, $bits:ty, $key:ident, $one_bits:expr) => {
        #[kani::proof]
        fn $name() {
            let (ba, bb, bc): ($bits, $bits, $bits) = (kani::any(), kani::any(), kani::any());
            let (a, b, c) = (<$t>::from_bits(ba), <$t>::from_bits(bb), <$t>::from_bits(bc));
            let (ka, kb, kc) = ($key(ba), $key(bb), $key(bc));
            let want = if ka < kb { Ordering::Less } else if ka == kb { Ordering::Equal } else { Ordering::Greater };
            assert!(a.compare(b) == want);
            assert!((ka == kb) == (ba == bb)); // the key is injective on bit patterns
            assert!(a.is_eq(b) == (ba == bb) && a.is_eq(b) == (want == Ordering::Equal));
            assert!(a.is_ne(b) == (ba != bb));
            assert!(a.is_lt(b) == (ka < kb));
            assert!(a.is_le(b) == (ka <= kb));
            assert!(a.is_gt(b) == (ka > kb));
            assert!(a.is_ge(b) == (ka >= kb));
            // order laws, three symbolic operands
            assert!(a.compare(a) == Ordering::Equal);
            assert!(a.compare(b) == b.compare(a).reverse());
            if a.is_le(b) && b.is_le(c) { assert!(a.is_le(c)); }
            if a.is_lt(b) && b.is_le(c) { assert!(a.is_lt(c)); }
            assert!(a.is_le(b) || b.is_le(a));
            let _ = kc;
            // agreement with the numeric order away from NaN; zeros and NaNs placed as IEEE says
            if !a.is_nan() && !b.is_nan() && a < b { assert!(want == Ordering::Less); }
            let sign: $bits = !(<$bits>::MAX >> 1);
            if ba == sign && bb == 0 { assert!(want == Ordering::Less && !a.is_eq(b)); }
            if a.is_nan() && !b.is_nan() { assert!(want == if ba & sign != 0 { Ordering::Less } else { Ordering::Greater }); }
            // constants
            assert!(<$t as ArrowNativeTypeOp>::ZERO.to_bits() == 0 && <$t as ArrowNativeTypeOp>::ONE.to_bits() == $one_bits);
            assert!(a.is_zero() == (ba << 1 == 0));
            assert!(<$t as ArrowNativeTypeOp>::MIN_TOTAL_ORDER.to_bits() == <$bits>::MAX);
            assert!(<$t as ArrowNativeTypeOp>::MAX_TOTAL_ORDER.to_bits() == <$bits>::MAX >> 1);
            assert!(<$t as ArrowNativeTypeOp>::MIN_TOTAL_ORDER.compare(a) != Ordering::Greater);
            assert!(<$t as ArrowNativeTypeOp>::MAX_TOTAL_ORDER.compare(a) != Ordering::Less);
            kani::cover!(a.is_nan() && b.is_nan() && ba != bb);
            kani::cover!(a.is_nan() && ba == bb);
            kani::cover!(ba == sign && bb == 0);
            kani::cover!(!a.is_nan() && !b.is_nan() && a < b);
            kani::cover!(a.is_lt(b) && b.is_lt(c));
        }
    };
}
// @unit name=f16_order props=C10 kind=complete fns=ArrowNativeTypeOp<f16>::compare,ArrowNativeTypeOp<f16>::is_eq,ArrowNativeTypeOp<f16>::is_zero,ArrowNativeTypeOp::is_ne,ArrowNativeTypeOp::is_lt,ArrowNativeTypeOp::is_le,ArrowNativeTypeOp::is_gt,ArrowNativeTypeOp::is_ge
float_order!(f16_order, f16, u16, key16, 0x3C00);
// @unit name=f32_order props=C10 kind=complete fns=ArrowNativeTypeOp<f32>::compare,ArrowNativeTypeOp<f32>::is_eq,ArrowNativeTypeOp<f32>::is_zero,ArrowNativeTypeOp::is_ne,ArrowNativeTypeOp::is_lt,ArrowNativeTypeOp::is_le,ArrowNativeTypeOp::is_gt,ArrowNativeTypeOp::is_ge
float_order!(f32_order, f32, u32, key32, 0x3F80_0000);
// @unit name=f64_order props=C10 kind=complete fns=ArrowNativeTypeOp<f64>::compare,ArrowNativeTypeOp<f64>::is_eq,ArrowNativeTypeOp<f64>::is_zero,ArrowNativeTypeOp::is_ne,ArrowNativeTypeOp::is_lt,ArrowNativeTypeOp::is_le,ArrowNativeTypeOp::is_gt,ArrowNativeTypeOp::is_ge
float_order!(f64_order, f64, u64, key64, 0x3FF0_0000_0000_0000);

// ================================================================================================
// C12  floats: IEEE result of the native operator, never an overflow error
// ================================================================================================

// Contract (C12): for all bit patterns a, b of float type F: add/sub/neg _checked never fail and
// return, like the _wrapping forms, the IEEE-754 result of the native operator (bit-identical, or both
// NaN); overflow goes to +-inf (pinned: MAX + MAX = +inf, -MAX - MAX = -inf), never to an error.
// neg flips exactly the sign bit (also of NaNs and zeros).  Operand order pinned by a - 0 = a.
// (Kani's NaN-generation checks inside the code are ignored by the runner: producing NaN is legal.)
macro_rules! float_addsub {
    ($name:ident, $t:ty, $bits:ty) => {
        #[kani::proof]
        fn $name() {
            let (ba, bb): ($bits, $bits) = (kani::any(), kani::any());
            let (a, b) = (<$t>::from_bits(ba), <$t>::from_bits(bb));
            let same = |x: $t, y: $t| x.to_bits() == y.to_bits() || (x.is_nan() && y.is_nan());
            let (s, d, n) = (a.add_checked(b), a.sub_checked(b), a.neg_checked());
            assert!(matches!(s, Ok(v) if same(v, a + b)) && same(a.add_wrapping(b), a + b));
            assert!(matches!(d, Ok(v) if same(v, a - b)) && same(a.sub_wrapping(b), a - b));
            let sign: $bits = !(<$bits>::MAX >> 1);
            assert!(matches!(n, Ok(v) if v.to_bits() == ba ^ sign) && a.neg_wrapping().to_bits() == ba ^ sign);
            if ba == <$t>::MAX.to_bits() && bb == ba { assert!(a.add_wrapping(b).to_bits() == <$t>::INFINITY.to_bits()); }
            if ba == (<$t>::MAX.to_bits() | sign) && bb == <$t>::MAX.to_bits() { assert!(a.sub_wrapping(b).to_bits() == <$t>::NEG_INFINITY.to_bits()); }
            if bb == 0 && !a.is_nan() { assert!(a.sub_wrapping(b).to_bits() == ba); }
            kani::cover!(a.is_nan());
            kani::cover!(!a.is_nan() && !b.is_nan() && (a + b).is_nan());
            kani::cover!(a.is_finite() && b.is_finite() && (a + b).is_infinite());
            kani::cover!(a.is_finite() && b.is_finite() && (a - b).is_finite() && ba != 0 && bb != 0);
            std::mem::forget((s, d, n));
        }
    };
}
// @unit name=f16_addsub props=C12 kind=complete fns=ArrowNativeTypeOp<f16>::add_checked,ArrowNativeTypeOp<f16>::add_wrapping,ArrowNativeTypeOp<f16>::sub_checked,ArrowNativeTypeOp<f16>::sub_wrapping,ArrowNativeTypeOp<f16>::neg_checked,ArrowNativeTypeOp<f16>::neg_wrapping timeout=1500
float_addsub!(f16_addsub, f16, u16);
// @unit name=f32_addsub props=C12 kind=complete fns=ArrowNativeTypeOp<f32>::add_checked,ArrowNativeTypeOp<f32>::add_wrapping,ArrowNativeTypeOp<f32>::sub_checked,ArrowNativeTypeOp<f32>::sub_wrapping,ArrowNativeTypeOp<f32>::neg_checked,ArrowNativeTypeOp<f32>::neg_wrapping
float_addsub!(f32_addsub, f32, u32);
// @unit name=f64_addsub props=C12 kind=complete fns=ArrowNativeTypeOp<f64>::add_checked,ArrowNativeTypeOp<f64>::add_wrapping,ArrowNativeTypeOp<f64>::sub_checked,ArrowNativeTypeOp<f64>::sub_wrapping,ArrowNativeTypeOp<f64>::neg_checked,ArrowNativeTypeOp<f64>::neg_wrapping timeout=1500
float_addsub!(f64_addsub, f64, u64);

// Contract (C12): for all bit patterns a, b: mul_checked never fails and returns, like mul_wrapping,
// the IEEE-754 product of the native operator (bit-identical or both NaN); a * 1 = a for non-NaN a.
macro_rules! float_mul {
    ($name:ident, $t:ty, $bits:ty, $one_bits:expr) => {
        #[kani::proof]
        fn $name() {
            let (ba, bb): ($bits, $bits) = (kani::any(), kani::any());
            let (a, b) = (<$t>::from_bits(ba), <$t>::from_bits(bb));
            let same = |x: $t, y: $t| x.to_bits() == y.to_bits() || (x.is_nan() && y.is_nan());
            let m = a.mul_checked(b);
            assert!(matches!(m, Ok(v) if same(v, a * b)) && same(a.mul_wrapping(b), a * b));
            if bb == $one_bits && !a.is_nan() { assert!(a.mul_wrapping(b).to_bits() == ba); }
            kani::cover!(a.is_finite() && b.is_finite() && (a * b).is_infinite());
            kani::cover!(!a.is_nan() && !b.is_nan() && (a * b).is_nan());
            std::mem::forget(m);
        }
    };
}
// @unit name=f16_mul props=C12 kind=complete fns=ArrowNativeTypeOp<f16>::mul_checked,ArrowNativeTypeOp<f16>::mul_wrapping timeout=600
float_mul!(f16_mul, f16, u16, 0x3C00);
// @unit name=f32_mul props=C12 kind=complete fns=ArrowNativeTypeOp<f32>::mul_checked,ArrowNativeTypeOp<f32>::mul_wrapping timeout=1500
float_mul!(f32_mul, f32, u32, 0x3F80_0000);

// Contract (C12): for all bit patterns a, b of float type F: div_checked / mod_checked return
// Err(DivideByZero) <=> b is +0 or -0 (as the code documents), and Ok otherwise - never an
// ArithmeticOverflow error, also for NaN / inf / subnormal operands; pow_checked never fails.
// The VALUES of float `/`, `%` and powi are not decided here (CBMC's float divider does not finish,
// fmod and powi are over-approximated): trusted IEEE / libm.  Operand order is pinned on constants:
// 1 / 2 = 0.5.
macro_rules! float_divmod_err {
    ($name:ident, $t:ty, $bits:ty, $from:expr) => {
        #[kani::proof]
        #[kani::stub(alloc::fmt::format, stub_format)]
        fn $name() {
            let (ba, bb): ($bits, $bits) = (kani::any(), kani::any());
            let (a, b) = (<$t>::from_bits(ba), <$t>::from_bits(bb));
            let bzero = bb << 1 == 0;
            let (d, m) = (a.div_checked(b), a.mod_checked(b));
            assert!(is_dbz(&d) == bzero && d.is_ok() == !bzero);
            assert!(is_dbz(&m) == bzero && m.is_ok() == !bzero);
            let e: u32 = kani::any();
            let p = a.pow_checked(e);
            assert!(p.is_ok());
            let f = $from;
            let h = f(1.0).div_checked(f(2.0));
            assert!(matches!(h, Ok(v) if v.to_bits() == f(0.5).to_bits()));
            assert!(f(1.0).div_wrapping(f(2.0)).to_bits() == f(0.5).to_bits());
            kani::cover!(bzero && bb != 0);
            kani::cover!(!bzero && b.is_nan());
            kani::cover!(!bzero && a.is_infinite() && b.is_infinite());
            std::mem::forget((d, m, p, h));
        }
    };
}
// @unit name=f16_divmod_err props=C12 kind=complete fns=ArrowNativeTypeOp<f16>::div_checked,ArrowNativeTypeOp<f16>::mod_checked,ArrowNativeTypeOp<f16>::pow_checked
float_divmod_err!(f16_divmod_err, f16, u16, f16::from_f32);
// @unit name=f32_divmod_err props=C12 kind=complete fns=ArrowNativeTypeOp<f32>::div_checked,ArrowNativeTypeOp<f32>::mod_checked,ArrowNativeTypeOp<f32>::pow_checked
float_divmod_err!(f32_divmod_err, f32, u32, |x: f32| x);
// @unit name=f64_divmod_err props=C12 kind=complete fns=ArrowNativeTypeOp<f64>::div_checked,ArrowNativeTypeOp<f64>::mod_checked,ArrowNativeTypeOp<f64>::pow_checked
float_divmod_err!(f64_divmod_err, f64, u64, |x: f32| x as f64);

// ================================================================================================
// i256, IntervalDayTime, IntervalMonthDayNano through the same native_type_op! expansion
// ================================================================================================
#[path = "/verif/kani/support/i256_spec.rs"]
mod i256_spec;
use i256_spec::*;

fn any256() -> i256 { i256::from_parts(kani::any(), kani::any()) }
fn d4(x: i256) -> D4 { let (lo, hi) = x.to_parts(); digits(lo, hi) }

// Contract (C12): i256 as ArrowNativeTypeOp, for all 256-bit a, b, against the digit model of
// support/i256_spec.rs (exact schoolbook sum / difference, top digit signed):
//   add/sub/neg _checked = Ok(s) <=> the exact result lies in [-2^255, 2^255), and then s is it; otherwise
//   Err(ArithmeticOverflow); _wrapping = exact result mod 2^256; neg_checked fails exactly for MIN.
// @unit name=i256_native_addsub props=C12 kind=complete fns=ArrowNativeTypeOp<i256>::add_checked,ArrowNativeTypeOp<i256>::add_wrapping,ArrowNativeTypeOp<i256>::sub_checked,ArrowNativeTypeOp<i256>::sub_wrapping,ArrowNativeTypeOp<i256>::neg_checked,ArrowNativeTypeOp<i256>::neg_wrapping
#[kani::proof]
#[kani::stub(alloc::fmt::format, stub_format)]
fn i256_native_addsub() {
    let (a, b) = (any256(), any256());
    let (s, so) = add_spec(d4(a), d4(b));
    let (t, to) = sub_spec(d4(a), d4(b));
    let (n, no) = sub_spec(ZERO4, d4(a));
    let (ra, rs, rn) = (a.add_checked(b), a.sub_checked(b), a.neg_checked());
    assert!(matches!(ra, Ok(v) if d4(v) == s) == !so && is_ovf(&ra) == so && d4(a.add_wrapping(b)) == s);
    assert!(matches!(rs, Ok(v) if d4(v) == t) == !to && is_ovf(&rs) == to && d4(a.sub_wrapping(b)) == t);
    assert!(matches!(rn, Ok(v) if d4(v) == n) == !no && is_ovf(&rn) == no && d4(a.neg_wrapping()) == n);
    assert!(no == (d4(a) == MIN4));
    kani::cover!(so && is_neg(d4(a)));
    kani::cover!(so && !is_neg(d4(a)));
    kani::cover!(to);
    kani::cover!(no);
    kani::cover!(!so && !to && d4(a)[0].checked_add(d4(b)[0]).is_none());
    std::mem::forget((ra, rs, rn));
}

// Contract (C10, C12): i256 as ArrowNativeTypeOp: compare(a,b) = mathematical order of the 256-bit two's
// complement values (digit model); is_eq/ne/lt/le/gt/ge its projections; is_zero <=> all digits 0;
// ZERO = 0, ONE = 1; MIN_TOTAL_ORDER = -2^255 and MAX_TOTAL_ORDER = 2^255 - 1 are least / greatest.
// @unit name=i256_native_order props=C10,C12 kind=complete fns=ArrowNativeTypeOp<i256>::compare,ArrowNativeTypeOp<i256>::is_eq,ArrowNativeTypeOp<i256>::is_zero,ArrowNativeTypeOp::is_lt,ArrowNativeTypeOp::is_le,ArrowNativeTypeOp::is_gt,ArrowNativeTypeOp::is_ge,ArrowNativeTypeOp::is_ne tier=thorough was_quick=1 confirmed=0
#[kani::proof]
#[kani::unwind(34)]
fn i256_native_order() {
    let (a, b) = (any256(), any256());
    let want = cmp_spec(d4(a), d4(b));
    assert!(a.compare(b) == want);
    assert!(a.is_eq(b) == (d4(a) == d4(b)) && a.is_eq(b) == (want == Ordering::Equal) && a.is_ne(b) == !a.is_eq(b));
    assert!(a.is_lt(b) == (want == Ordering::Less) && a.is_le(b) == (want != Ordering::Greater));
    assert!(a.is_gt(b) == (want == Ordering::Greater) && a.is_ge(b) == (want != Ordering::Less));
    assert!(a.is_zero() == (d4(a) == ZERO4));
    assert!(d4(<i256 as ArrowNativeTypeOp>::ZERO) == ZERO4 && d4(<i256 as ArrowNativeTypeOp>::ONE) == [1, 0, 0, 0]);
    assert!(d4(<i256 as ArrowNativeTypeOp>::MIN_TOTAL_ORDER) == MIN4 && d4(<i256 as ArrowNativeTypeOp>::MAX_TOTAL_ORDER) == MAX4);
    assert!(<i256 as ArrowNativeTypeOp>::MIN_TOTAL_ORDER.compare(a) != Ordering::Greater);
    assert!(<i256 as ArrowNativeTypeOp>::MAX_TOTAL_ORDER.compare(a) != Ordering::Less);
    kani::cover!(want == Ordering::Less && d4(a)[3] == d4(b)[3] && d4(a)[2] == d4(b)[2]);
    kani::cover!(want == Ordering::Greater && is_neg(d4(b)) && !is_neg(d4(a)));
    kani::cover!(want == Ordering::Equal);
    kani::cover!(a.is_zero());
}

fn div_rem_word_def(hi: u64, lo: u64, divisor: u64) -> (u64, u64) {
    if hi == 0 { return (lo / divisor, lo % divisor); }
    let x = (u128::from(hi) << 64) + u128::from(lo);
    let y = u128::from(divisor);
    ((x / y) as u64, (x % y) as u64)
}
// Contract (C12), bounded: i256 mul / div / mod through ArrowNativeTypeOp for operands that are sign
// extensions of i32 values (products / quotients then fit i128, the spec type): mul_checked = Ok(a*b),
// mul_wrapping = a*b; div_checked / mod_checked = Err(DivideByZero) <=> b = 0, otherwise Ok(q), Ok(r) with
// q*b + r = a, |r| < |b|, r = 0 or sign(r) = sign(a); div_wrapping / mod_wrapping equal them for b != 0.
// Pinned full-width points: MIN * -1 and MIN / -1 and MIN % -1 are Err(ArithmeticOverflow), the
// wrapping forms give MIN, MIN, 0; pow_checked(2, 255) is Err(ArithmeticOverflow), pow_checked(2, 254) Ok.
// Stub: arrow_buffer::bigint::div::div_rem_word (inline asm) -> its portable definition.
// @unit name=i256_native_muldiv props=C12 kind=bounded bound=operands_in_i32_range_(plus_pinned_full-width_points) fns=ArrowNativeTypeOp<i256>::mul_checked,ArrowNativeTypeOp<i256>::mul_wrapping,ArrowNativeTypeOp<i256>::div_checked,ArrowNativeTypeOp<i256>::div_wrapping,ArrowNativeTypeOp<i256>::mod_checked,ArrowNativeTypeOp<i256>::mod_wrapping,ArrowNativeTypeOp<i256>::pow_checked timeout=900 tier=thorough was_quick=1 confirmed=0
#[kani::proof]
#[kani::unwind(10)]
#[kani::stub(alloc::fmt::format, stub_format)]
#[kani::stub(arrow_buffer::bigint::div::div_rem_word, div_rem_word_def)]
fn i256_native_muldiv() {
    let (a, b): (i32, i32) = (kani::any(), kani::any());
    let (x, y) = (i256::from_i128(a as i128), i256::from_i128(b as i128));
    let p = i256::from_i128(a as i128 * b as i128);
    let rm = x.mul_checked(y);
    assert!(matches!(rm, Ok(v) if v == p) && x.mul_wrapping(y) == p);
    let (rd, rr) = (x.div_checked(y), x.mod_checked(y));
    assert!(is_dbz(&rd) == (b == 0) && is_dbz(&rr) == (b == 0));
    if b != 0 {
        match (&rd, &rr) {
            (Ok(q), Ok(r)) => {
                let (qv, rv) = (q.to_i128(), r.to_i128());
                assert!(qv.is_some() && rv.is_some());
                let (qv, rv, av, bv) = (qv.unwrap(), rv.unwrap(), a as i128, b as i128);
                assert!(qv.abs() <= 1 << 31 && rv.abs() < bv.abs());
                assert!(qv * bv + rv == av && (rv == 0 || (rv < 0) == (av < 0)));
                assert!(x.div_wrapping(y) == *q && x.mod_wrapping(y) == *r);
            }
            _ => assert!(false),
        }
    }
    let m1 = i256::MINUS_ONE;
    let (e1, e2, e3) = (i256::MIN.mul_checked(m1), i256::MIN.div_checked(m1), i256::MIN.mod_checked(m1));
    assert!(is_ovf(&e1) && is_ovf(&e2) && is_ovf(&e3));
    assert!(i256::MIN.mul_wrapping(m1) == i256::MIN && i256::MIN.div_wrapping(m1) == i256::MIN && i256::MIN.mod_wrapping(m1) == i256::ZERO);
    let two = i256::from_i128(2);
    let (p1, p2) = (two.pow_checked(255), two.pow_checked(254));
    assert!(is_ovf(&p1) && p2.is_ok());
    kani::cover!(b == 0);
    kani::cover!(b < -1 && a > 1000);
    std::mem::forget((rm, rd, rr, e1, e2, e3, p1, p2));
}

// Contract (C12, C10): IntervalDayTime and IntervalMonthDayNano as ArrowNativeTypeOp: add/sub/neg
// _checked are field-wise exact (exact field results in i128): Ok(v) <=> every field fits its type, and
// then v holds the exact fields; otherwise Err(ArithmeticOverflow); _wrapping = every field mod 2^32 /
// 2^64; compare = lexicographic order on the fields in declaration order, is_* its projections,
// is_eq <=> all fields equal; is_zero <=> all fields 0; ZERO / ONE field-wise 0 / 1; MIN/MAX_TOTAL_ORDER
// are least / greatest; div/mod _checked: Err(DivideByZero) <=> EVERY divisor field is 0 (is_zero of
// the struct) - a divisor with only SOME zero field is reported as ArithmeticOverflow (the per-field
// checked_div returns None), never as a value.
// @unit name=interval_native_ops props=C12,C10 kind=complete fns=ArrowNativeTypeOp<IntervalDayTime>::add_checked,ArrowNativeTypeOp<IntervalDayTime>::sub_checked,ArrowNativeTypeOp<IntervalDayTime>::neg_checked,ArrowNativeTypeOp<IntervalDayTime>::compare,ArrowNativeTypeOp<IntervalMonthDayNano>::add_checked,ArrowNativeTypeOp<IntervalMonthDayNano>::sub_checked,ArrowNativeTypeOp<IntervalMonthDayNano>::neg_checked,ArrowNativeTypeOp<IntervalMonthDayNano>::compare,ArrowNativeTypeOp<IntervalMonthDayNano>::div_checked
#[kani::proof]
#[kani::stub(alloc::fmt::format, stub_format)]
fn interval_native_ops() {
    let f32w = |x: i128| x >= i32::MIN as i128 && x <= i32::MAX as i128;
    let f64w = |x: i128| x >= i64::MIN as i128 && x <= i64::MAX as i128;
    let ord = |a: i128, b: i128| if a < b { Ordering::Less } else if a == b { Ordering::Equal } else { Ordering::Greater };
    // ---- IntervalMonthDayNano
    let a = IntervalMonthDayNano::new(kani::any(), kani::any(), kani::any());
    let b = IntervalMonthDayNano::new(kani::any(), kani::any(), kani::any());
    let w = |x: IntervalMonthDayNano| (x.months as i128, x.days as i128, x.nanoseconds as i128);
    let ((am, ad, an), (bm, bd, bn)) = (w(a), w(b));
    macro_rules! chk3 {
        ($r:expr, $wr:expr, $e:expr) => {{
            let (r, (em, ed, en)) = ($r, $e);
            let ok = f32w(em) && f32w(ed) && f64w(en);
            assert!(matches!(r, Ok(v) if w(v) == (em, ed, en)) == ok && is_ovf(&r) == !ok);
            let v = $wr;
            assert!(v.months == em as i32 && v.days == ed as i32 && v.nanoseconds == en as i64);
            std::mem::forget(r);
            ok
        }};
    }
    let ok_a = chk3!(a.add_checked(b), a.add_wrapping(b), (am + bm, ad + bd, an + bn));
    let ok_s = chk3!(a.sub_checked(b), a.sub_wrapping(b), (am - bm, ad - bd, an - bn));
    let ok_n = chk3!(a.neg_checked(), a.neg_wrapping(), (-am, -ad, -an));
    let want = match ord(am, bm) { Ordering::Equal => match ord(ad, bd) { Ordering::Equal => ord(an, bn), o => o }, o => o };
    assert!(a.compare(b) == want && a.is_eq(b) == (w(a) == w(b)) && a.is_ne(b) == (w(a) != w(b)));
    assert!(a.is_lt(b) == (want == Ordering::Less) && a.is_le(b) == (want != Ordering::Greater));
    assert!(a.is_gt(b) == (want == Ordering::Greater) && a.is_ge(b) == (want != Ordering::Less));
    assert!(a.is_zero() == (w(a) == (0, 0, 0)));
    assert!(w(<IntervalMonthDayNano as ArrowNativeTypeOp>::ZERO) == (0, 0, 0) && w(<IntervalMonthDayNano as ArrowNativeTypeOp>::ONE) == (1, 1, 1));
    assert!(<IntervalMonthDayNano as ArrowNativeTypeOp>::MIN_TOTAL_ORDER.compare(a) != Ordering::Greater);
    assert!(<IntervalMonthDayNano as ArrowNativeTypeOp>::MAX_TOTAL_ORDER.compare(a) != Ordering::Less);
    let (dv, md) = (a.div_checked(b), a.mod_checked(b));
    let all_zero = w(b) == (0, 0, 0);
    let some_zero = bm == 0 || bd == 0 || bn == 0;
    assert!(is_dbz(&dv) == all_zero && is_dbz(&md) == all_zero);
    if some_zero && !all_zero { assert!(is_ovf(&dv) && is_ovf(&md)); }
    // ---- IntervalDayTime
    let c = IntervalDayTime::new(kani::any(), kani::any());
    let e = IntervalDayTime::new(kani::any(), kani::any());
    let w2 = |x: IntervalDayTime| (x.days as i128, x.milliseconds as i128);
    let ((cd, cm), (ed_, em_)) = (w2(c), w2(e));
    macro_rules! chk2 {
        ($r:expr, $wr:expr, $e:expr) => {{
            let (r, (xd, xm)) = ($r, $e);
            let ok = f32w(xd) && f32w(xm);
            assert!(matches!(r, Ok(v) if w2(v) == (xd, xm)) == ok && is_ovf(&r) == !ok);
            let v = $wr;
            assert!(v.days == xd as i32 && v.milliseconds == xm as i32);
            std::mem::forget(r);
            ok
        }};
    }
    let ok_c = chk2!(c.add_checked(e), c.add_wrapping(e), (cd + ed_, cm + em_));
    let _ = chk2!(c.sub_checked(e), c.sub_wrapping(e), (cd - ed_, cm - em_));
    let _ = chk2!(c.neg_checked(), c.neg_wrapping(), (-cd, -cm));
    let want2 = match ord(cd, ed_) { Ordering::Equal => ord(cm, em_), o => o };
    assert!(c.compare(e) == want2 && c.is_eq(e) == (w2(c) == w2(e)) && c.is_lt(e) == (want2 == Ordering::Less) && c.is_ge(e) == (want2 != Ordering::Less));
    assert!(c.is_zero() == (w2(c) == (0, 0)));
    kani::cover!(!ok_a && f32w(am + bm) && f32w(ad + bd));
    kani::cover!(!ok_s && f64w(an - bn));
    kani::cover!(!ok_n && a.months != i32::MIN);
    kani::cover!(ok_a && ok_s && want == Ordering::Less && am == bm && ad == bd);
    kani::cover!(some_zero && !all_zero);
    kani::cover!(all_zero);
    kani::cover!(!ok_c);
    kani::cover!(want2 == Ordering::Greater && cd == ed_);
    std::mem::forget((dv, md));
}
