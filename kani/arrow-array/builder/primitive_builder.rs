// Kani contract harnesses for /repo/arrow-array/src/builder/primitive_builder.rs (child module: sees private items via super::)
