// Kani contract harnesses for /repo/arrow-array/src/builder/primitive_builder.rs (child module: sees private items via super::)
use super::*;
#[path = "/verif/kani/support/spec.rs"]
mod spec;
use spec::*;
use crate::types::Int32Type;
use crate::Array;

/// the fixed append schedule shared by the two units below; returns the model (Vec<Option<i32>> as arrays)
fn schedule(b: &mut PrimitiveBuilder<Int32Type>, v: &[i32; 4], last_some: bool) -> [Option<i32>; 5] {
    b.append_value(v[0]);
    b.append_null();
    b.append_slice(&v[1..3]);
    b.append_option(if last_some { Some(v[3]) } else { None });
    [Some(v[0]), None, Some(v[1]), Some(v[2]), if last_some { Some(v[3]) } else { None }]
}

// Contract (C01): PrimitiveBuilder::<Int32Type> after the schedule append_value(a); append_null();
// append_slice([b, c]); append_option(o) (a, b, c, o symbolic) holds exactly the model
// [Some(a), None, Some(b), Some(c), o]: len() == 5, values_slice()[i] == the value for valid slots,
// validity bit i set <=> slot i is Some (validity_slice() is present because a null was appended).
// This is the builder *state* contract; `finish` is the separate unit pbuilder_finish_model.
// @unit name=pbuilder_state_model props=C01 kind=bounded bound=schedule_of_4_appends_5_slots fns=PrimitiveBuilder::append_value,PrimitiveBuilder::append_null,PrimitiveBuilder::append_slice,PrimitiveBuilder::append_option,PrimitiveBuilder::values_slice,PrimitiveBuilder::validity_slice tier=quick
#[kani::proof]
#[kani::unwind(10)]
#[kani::stub(alloc::fmt::format, stub_format)]
fn pbuilder_state_model() {
    let v: [i32; 4] = kani::any();
    let last_some: bool = kani::any();
    let mut b = PrimitiveBuilder::<Int32Type>::with_capacity(8);
    let m = schedule(&mut b, &v, last_some);
    assert!(b.len() == 5);
    let vals = b.values_slice();
    assert!(vals.len() == 5);
    let validity = b.validity_slice();
    assert!(validity.is_some());
    let bm = validity.unwrap();
    let mut i = 0;
    while i < 5 {
        match m[i] {
            Some(x) => { assert!(vals[i] == x); assert!(bit(bm, i)); }
            None => assert!(!bit(bm, i)),
        }
        i += 1;
    }
    kani::cover!(last_some);
    kani::cover!(!last_some);
    std::mem::forget(b);
}

// Contract (C01, stretch): finish() after the same schedule returns a well-formed Int32 array equal to
// the model (len 5, exact null count, value(i) on valid slots, is_null(i)), and leaves the builder empty.
// Measured in the design phase: 6-minute timeout (finish goes through ArrayData::builder ..
// build_unchecked and PrimitiveArray::from(ArrayData), whose temporaries drop a DataType inside the
// callee). Kept as a thorough-tier attempt only if it fits 900 s.
// @unit name=pbuilder_finish_model props=C01 kind=bounded bound=schedule_of_4_appends_5_slots fns=PrimitiveBuilder::finish timeout=900 mem=10 tier=thorough note=not_confirmed_not_run
#[kani::proof]
#[kani::unwind(10)]
#[kani::stub(alloc::fmt::format, stub_format)]
fn pbuilder_finish_model() {
    let v: [i32; 4] = kani::any();
    let last_some: bool = kani::any();
    let mut b = PrimitiveBuilder::<Int32Type>::with_capacity(8);
    let m = schedule(&mut b, &v, last_some);
    let a = b.finish();
    assert!(a.len() == 5);
    assert!(a.null_count() == if last_some { 1 } else { 2 });
    let mut i = 0;
    while i < 5 {
        match m[i] {
            Some(x) => { assert!(a.is_valid(i)); assert!(a.value(i) == x); }
            None => assert!(a.is_null(i)),
        }
        i += 1;
    }
    assert!(b.len() == 0);
    kani::cover!(last_some);
    std::mem::forget(a);
    std::mem::forget(b);
}
