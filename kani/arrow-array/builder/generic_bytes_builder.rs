// Kani contract harnesses for /repo/arrow-array/src/builder/generic_bytes_builder.rs (child module: sees private items via super::)
use super::*;
#[path = "/verif/kani/support/spec.rs"]
mod spec;
use spec::*;
use crate::types::BinaryType;
use crate::Array;

// Contract (C01): GenericByteBuilder::<Binary> after append_value(2 bytes); append_null();
// append_value(0 bytes); append_value(3 bytes) (byte contents symbolic; lengths concrete because they
// size copies): offsets_slice() == prefix sums [0, 2, 2, 2, 5] (monotone, starts at 0, null slot has an
// empty range), values_slice() == concatenation of the appended values, validity bits == [1, 0, 1, 1],
// len() == 4.
// @unit name=bytes_builder_state_model props=C01 kind=bounded bound=schedule_of_4_appends_value_lengths=(2,null,0,3) fns=GenericByteBuilder::append_value,GenericByteBuilder::append_null,GenericByteBuilder::offsets_slice,GenericByteBuilder::values_slice,GenericByteBuilder::validity_slice tier=quick
#[kani::proof]
#[kani::unwind(10)]
#[kani::stub(alloc::fmt::format, stub_format)]
fn bytes_builder_state_model() {
    let a: [u8; 2] = kani::any();
    let c: [u8; 3] = kani::any();
    let mut b = GenericByteBuilder::<BinaryType>::with_capacity(4, 8);
    b.append_value(&a[..]);
    b.append_null();
    b.append_value(&[][..]);
    b.append_value(&c[..]);
    assert!(b.len() == 4);
    let o = b.offsets_slice();
    assert!(o.len() == 5 && o[0] == 0 && o[1] == 2 && o[2] == 2 && o[3] == 2 && o[4] == 5);
    let v = b.values_slice();
    assert!(v.len() == 5 && v[0] == a[0] && v[1] == a[1] && v[2] == c[0] && v[3] == c[1] && v[4] == c[2]);
    let bm = b.validity_slice().unwrap();
    assert!(bit(bm, 0) && !bit(bm, 1) && bit(bm, 2) && bit(bm, 3));
    kani::cover!(a[0] != c[0]);
}

// Contract (C01, stretch): finish() after the same schedule returns a Binary array equal to the model.
// @unit name=bytes_builder_finish_model props=C01 kind=bounded bound=schedule_of_4_appends_value_lengths=(2,null,0,3) fns=GenericByteBuilder::finish timeout=900 mem=10 tier=thorough note=not_confirmed_not_run
#[kani::proof]
#[kani::unwind(10)]
#[kani::stub(alloc::fmt::format, stub_format)]
fn bytes_builder_finish_model() {
    let a: [u8; 2] = kani::any();
    let c: [u8; 3] = kani::any();
    let mut b = GenericByteBuilder::<BinaryType>::with_capacity(4, 8);
    b.append_value(&a[..]);
    b.append_null();
    b.append_value(&[][..]);
    b.append_value(&c[..]);
    let arr = b.finish();
    assert!(arr.len() == 4 && arr.null_count() == 1);
    assert!(arr.is_null(1) && arr.value(2).is_empty());
    let (v0, v3) = (arr.value(0), arr.value(3));
    assert!(v0.len() == 2 && v0[0] == a[0] && v0[1] == a[1]);
    assert!(v3.len() == 3 && v3[0] == c[0] && v3[1] == c[1] && v3[2] == c[2]);
    let o = arr.value_offsets();
    assert!(o.len() == 5 && o[0] == 0 && o[1] == 2 && o[2] == 2 && o[3] == 2 && o[4] == 5);
    kani::cover!(true);
    std::mem::forget(arr);
}
