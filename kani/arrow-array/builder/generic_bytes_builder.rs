// Kani contract harnesses for /repo/arrow-array/src/builder/generic_bytes_builder.rs (child module: sees private items via super::)
