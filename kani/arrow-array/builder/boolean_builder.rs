// Kani contract harnesses for /repo/arrow-array/src/builder/boolean_builder.rs (child module: sees private items via super::)
use super::*;
#[path = "/verif/kani/support/spec.rs"]
mod spec;
use spec::*;
use crate::Array;

// Contract (C01): BooleanBuilder after append_value(a); append_null(); append_slice([b, c]);
// append_option(o) holds the model [Some(a), None, Some(b), Some(c), o]: len() == 5, value bit i == the
// value on valid slots, validity bit i set <=> slot i is Some.
// @unit name=bbuilder_state_model props=C01 kind=bounded bound=schedule_of_4_appends_5_slots fns=BooleanBuilder::append_value,BooleanBuilder::append_null,BooleanBuilder::append_slice,BooleanBuilder::append_option,BooleanBuilder::values_slice,BooleanBuilder::validity_slice tier=quick
#[kani::proof]
#[kani::unwind(10)]
#[kani::stub(alloc::fmt::format, stub_format)]
fn bbuilder_state_model() {
    let v: [bool; 4] = kani::any();
    let last_some: bool = kani::any();
    let mut b = BooleanBuilder::with_capacity(8);
    b.append_value(v[0]);
    b.append_null();
    b.append_slice(&v[1..3]);
    b.append_option(if last_some { Some(v[3]) } else { None });
    let m = [Some(v[0]), None, Some(v[1]), Some(v[2]), if last_some { Some(v[3]) } else { None }];
    assert!(b.len() == 5);
    let vals = b.values_slice();
    let bm = b.validity_slice().unwrap();
    let mut i = 0;
    while i < 5 {
        match m[i] {
            Some(x) => { assert!(bit(vals, i) == x); assert!(bit(bm, i)); }
            None => assert!(!bit(bm, i)),
        }
        i += 1;
    }
    kani::cover!(last_some && v[3]);
    kani::cover!(!last_some);
}

// Contract (C01, stretch): finish() after the same schedule returns a BooleanArray equal to the model.
// @unit name=bbuilder_finish_model props=C01 kind=bounded bound=schedule_of_4_appends_5_slots fns=BooleanBuilder::finish timeout=900 mem=10 tier=thorough note=not_confirmed_not_run
#[kani::proof]
#[kani::unwind(10)]
#[kani::stub(alloc::fmt::format, stub_format)]
fn bbuilder_finish_model() {
    let v: [bool; 4] = kani::any();
    let last_some: bool = kani::any();
    let mut b = BooleanBuilder::with_capacity(8);
    b.append_value(v[0]);
    b.append_null();
    b.append_slice(&v[1..3]);
    b.append_option(if last_some { Some(v[3]) } else { None });
    let m = [Some(v[0]), None, Some(v[1]), Some(v[2]), if last_some { Some(v[3]) } else { None }];
    let a = b.finish();
    assert!(a.len() == 5);
    assert!(a.null_count() == if last_some { 1 } else { 2 });
    let mut i = 0;
    while i < 5 {
        match m[i] {
            Some(x) => { assert!(a.is_valid(i)); assert!(a.value(i) == x); }
            None => assert!(a.is_null(i)),
        }
        i += 1;
    }
    kani::cover!(last_some);
    std::mem::forget(a);
}
