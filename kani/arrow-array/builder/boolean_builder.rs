// Kani contract harnesses for /repo/arrow-array/src/builder/boolean_builder.rs (child module: sees private items via super::)
