// Kani contract harnesses for /repo/arrow-data/src/equal/mod.rs (child module: sees private items via super::)
