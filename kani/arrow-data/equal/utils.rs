// Kani contract harnesses for /repo/arrow-data/src/equal/utils.rs (child module: sees private items via super::)
//
// C02: equality helpers depend only on the addressed logical content (bits / bytes), never on the
// physical position (bit offsets, surrounding bytes).
use super::*;

/// bit k of a little-endian bit-packed byte sequence (Arrow validity / boolean layout)
fn bit(d: &[u8], k: usize) -> bool {
    (d[k / 8] >> (k % 8)) & 1 == 1
}

// Contract (C02): for two 12-byte buffers with arbitrary contents and arbitrary in-range bit
// offsets ls, rs and bit length len (len <= 70, so the 64-bit chunk path AND the remainder path are
// both exercised; ls, rs < 24 cover every sub-byte alignment combination):
//   equal_bits(l, r, ls, rs, len)  <=>  for all i < len: bit(l, ls+i) = bit(r, rs+i).
// Both directions via the windows as wide integers (independent of the chunk iterator); "=>" also
// per bit at a nondeterministic i. Bits outside the windows are irrelevant.
const NB: usize = 12;
/// the window [start, start+len) of the bitmap as an integer (bit i of the result = bit start+i),
/// computed with wide-integer arithmetic on the little-endian value of the 12 bytes
fn window(d: &[u8; NB], start: usize, len: usize) -> u128 {
    let mut w = [0u8; 16];
    w[..NB].copy_from_slice(d);
    let all = u128::from_le_bytes(w);
    let mask = if len == 0 { 0 } else { (1u128 << len) - 1 }; // len <= 70 < 128
    (all >> start) & mask
}
// @unit name=equal_bits_iff_all_bits_equal props=C02 kind=bounded bound=12-byte_buffers_offsets<24_len<=70 fns=equal_bits tier=quick mem=4 timeout=600
#[kani::proof]
#[kani::unwind(14)]
fn equal_bits_iff_all_bits_equal() {
    let a: [u8; NB] = kani::any();
    let b: [u8; NB] = kani::any();
    let (ls, rs, len): (usize, usize, usize) = (kani::any(), kani::any(), kani::any());
    kani::assume(ls < 24 && rs < 24 && len <= 70 && ls + len <= 8 * NB && rs + len <= 8 * NB);
    let got = equal_bits(&a, &b, ls, rs, len);
    // <=> the two windows are the same bit string
    assert!(got == (window(&a, ls, len) == window(&b, rs, len)));
    kani::cover!(got && len == 70 && ls % 8 == 3 && rs % 8 == 5);
    kani::cover!(!got && len == 70);
    kani::cover!(got && len == 64 && ls != rs);
    kani::cover!(!got && len == 1);
    kani::cover!(got && len == 0);
    kani::cover!(got && len > 0 && a != b); // equal windows inside different buffers
    // and, spelled out per bit, at a nondeterministic position
    if got {
        let i: usize = kani::any();
        if i < len {
            assert!(bit(&a, ls + i) == bit(&b, rs + i));
        }
    }
}

// Contract (C02): `equal_len(l, r, ls, rs, len)` (byte units)  <=>  l[ls..ls+len] == r[rs..rs+len]
// elementwise, for arbitrary contents and in-range starts/length; bytes outside are irrelevant.
// May-reject part: with ARBITRARY usize arguments it either panics or both windows are in range.
// @unit name=equal_len_iff_bytes_equal props=C02 kind=bounded bound=8-byte_slices fns=equal_len tier=quick mem=2 timeout=300
#[kani::proof]
#[kani::unwind(10)]
fn equal_len_iff_bytes_equal() {
    let a: [u8; 8] = kani::any();
    let b: [u8; 8] = kani::any();
    let (ls, rs, len): (usize, usize, usize) = (kani::any(), kani::any(), kani::any());
    kani::assume(ls <= 8 && rs <= 8 && len <= 8 - ls && len <= 8 - rs);
    let got = equal_len(&a, &b, ls, rs, len);
    let mut all = true;
    let mut i = 0;
    while i < 8 {
        if i < len && a[ls + i] != b[rs + i] {
            all = false;
        }
        i += 1;
    }
    assert!(got == all);
    kani::cover!(got && len == 8);
    kani::cover!(got && len == 3 && ls != rs && a != b);
    kani::cover!(!got && len == 1);
    kani::cover!(got && len == 0 && ls == 8);
}
// @unit name=equal_len_rejects_out_of_range props=C02,C01 kind=bounded bound=8-byte_slices_all_usize_arguments fns=equal_len mayreject=1 tier=quick mem=2 timeout=300
#[kani::proof]
#[kani::unwind(10)]
fn equal_len_rejects_out_of_range() {
    let a: [u8; 8] = kani::any();
    let b: [u8; 8] = kani::any();
    let (ls, rs, len): (usize, usize, usize) = (kani::any(), kani::any(), kani::any());
    kani::assume(ls.checked_add(len).is_some() && rs.checked_add(len).is_some()); // callers pass in-range sums
    let _ = equal_len(&a, &b, ls, rs, len);
    assert!(ls + len <= 8 && rs + len <= 8);
    kani::cover!(ls + len == 8 && len > 0);
}
