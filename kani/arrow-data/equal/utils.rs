// Kani contract harnesses for /repo/arrow-data/src/equal/utils.rs (child module: sees private items via super::)
