// Kani contract harnesses for /repo/arrow-data/src/data.rs (child module: sees private items via super::)
