// Kani contract harnesses for /repo/arrow-data/src/data.rs (child module: sees private items via super::)
//
// Only the slice / NullBuffer level helpers are specified here. ArrayData::try_new / validate /
// equal are measured out of reach for Kani (> 7 min, 7 GB at len <= 3: DESIGN.md section 3).
// Stubs: alloc::fmt::format -> stub_format (error messages are not part of any contract).
use super::*;
#[path = "/verif/kani/support/spec.rs"]
mod spec;
use spec::*;

// Contract (C09): `checked_len_plus_offset(type, len, offset)` = Ok(len + offset) exactly when the
// mathematical sum fits in usize, Err otherwise — for all 2^128 argument pairs (the overflow guard
// every ArrayData length computation goes through). The DataType only feeds the error message.
// @unit name=checked_len_plus_offset_iff_no_overflow props=C09 kind=complete fns=checked_len_plus_offset tier=quick mem=2 timeout=120
#[kani::proof]
#[kani::unwind(4)]
#[kani::stub(alloc::fmt::format, stub_format)]
fn checked_len_plus_offset_iff_no_overflow() {
    let (len, offset): (usize, usize) = (kani::any(), kani::any());
    let dt = DataType::Int32;
    let r = checked_len_plus_offset(&dt, len, offset);
    let sum = len as u128 + offset as u128;
    match &r {
        Ok(s) => assert!(sum <= usize::MAX as u128 && *s as u128 == sum),
        Err(_) => assert!(sum > usize::MAX as u128),
    }
    kani::cover!(r.is_ok() && sum == usize::MAX as u128);
    kani::cover!(r.is_err() && sum == usize::MAX as u128 + 1);
    std::mem::forget(r);
    std::mem::forget(dt);
}

/// bit k of a little-endian bit-packed byte sequence
fn vbit(d: &[u8], k: usize) -> bool {
    (d[k / 8] >> (k % 8)) & 1 == 1
}

// Contract (C02/C01): for a validity bitmap of NBITS bits sitting at bit offset BOFF of a 2- or 4-byte
// buffer (arbitrary contents; BOFF, NBITS concrete grid point because NullBuffer construction
// counts bits) and an arbitrary in-range window [offset, offset+len):
//   contains_nulls(Some(nulls), offset, len) <=> some bit of the window is 0;
//   count_nulls(Some(nulls), offset, len)     = number of 0 bits in the window;
//   with None: false / 0. Bits outside the window (and outside the bitmap) are irrelevant.
// Cost note: the 20/17-bit grid points are heavy (BitSliceIterator + two popcount passes over symbolic
// windows): nulls_window_3_17 finished once in < 1500 s on the loaded machine, a 0_20 point never did
// (dropped). The 2-byte points below are the regular units.
fn nulls_window_case<const NBYTES: usize, const BOFF: usize, const NBITS: usize>() {
    let d: [u8; NBYTES] = kani::any();
    let bb = BooleanBuffer::new(Buffer::from_slice_ref(d), BOFF, NBITS);
    let nb = NullBuffer::new(bb);
    let (offset, len): (usize, usize) = (kani::any(), kani::any());
    kani::assume(offset <= NBITS && len <= NBITS - offset);
    let mut zeros = 0;
    let mut i = 0;
    while i < NBITS {
        if offset <= i && i < offset + len && !vbit(&d, BOFF + i) {
            zeros += 1;
        }
        i += 1;
    }
    assert!(contains_nulls(Some(&nb), offset, len) == (zeros > 0));
    assert!(count_nulls(Some(&nb), offset, len) == zeros);
    assert!(!contains_nulls(None, offset, len) && count_nulls(None, offset, len) == 0);
    kani::cover!(zeros == 0 && len == NBITS);
    kani::cover!(zeros == len && len > 1);
    kani::cover!(zeros == 1 && len > 2 && offset > 0);
    kani::cover!(len == 0);
    kani::cover!(zeros == 0 && len > 0 && nb.null_count() > 0); // nulls only outside the window
}
// @unit name=nulls_window_0_12 props=C02,C01 kind=bounded bound=bitmap_offset0_12_bits_in_2_bytes fns=contains_nulls,count_nulls tier=quick mem=4 timeout=900
#[kani::proof]
#[kani::unwind(20)]
fn nulls_window_0_12() {
    nulls_window_case::<2, 0, 12>()
}
// @unit name=nulls_window_3_9 props=C02,C01 kind=bounded bound=bitmap_offset3_9_bits_in_2_bytes fns=contains_nulls,count_nulls tier=quick mem=4 timeout=900
#[kani::proof]
#[kani::unwind(20)]
fn nulls_window_3_9() {
    nulls_window_case::<2, 3, 9>()
}
// @unit name=nulls_window_3_17 props=C02,C01 kind=bounded bound=bitmap_offset3_17_bits_in_4_bytes fns=contains_nulls,count_nulls tier=thorough mem=8 timeout=900
#[kani::proof]
#[kani::unwind(34)]
fn nulls_window_3_17() {
    nulls_window_case::<4, 3, 17>()
}
