// Kani contract harnesses for /repo/arrow-data/src/decimal.rs (child module: sees private items via super::)
//
// MAX_/MIN_DECIMAL{32,64,128,256}_FOR_EACH_PRECISION tables and the precision validators.
// Spec side: 10^p formed by repeated multiplication by ten (native integers; for 256 bits schoolbook
// on four base-2^64 digits), never read from the tables under test.
// Stubs: alloc::fmt::format -> stub_format; format_decimal_str / format_decimal_str_internal (error
// message rendering only) -> empty string.  Error messages are not part of any contract.
use super::*;
#[path = "/verif/kani/support/spec.rs"]
mod spec;
use spec::*;

fn stub_fmt_dec(_value_str: &str, _precision: usize, _scale: i8) -> String { String::new() }
fn stub_fmt_dec_internal(_value_str: &str, _precision: usize, _scale: i8, _safe: bool) -> String { String::new() }

// Contract (C12, C13): for every precision p in 0..=9 / 0..=18 / 0..=38: MAX_DECIMALn_FOR_EACH_PRECISION[p]
// = 10^p - 1 and MIN_...[p] = -(10^p - 1) (entry 0 is the unused 0), the tables have exactly
// DECIMALn_MAX_PRECISION + 1 entries.
// @unit name=decimal_tables_native props=C12,C13 kind=complete fns=MAX_DECIMAL32_FOR_EACH_PRECISION,MIN_DECIMAL32_FOR_EACH_PRECISION,MAX_DECIMAL64_FOR_EACH_PRECISION,MIN_DECIMAL64_FOR_EACH_PRECISION,MAX_DECIMAL128_FOR_EACH_PRECISION,MIN_DECIMAL128_FOR_EACH_PRECISION tier=thorough was_quick=1 confirmed=0
#[kani::proof]
#[kani::unwind(41)]
fn decimal_tables_native() {
    assert!(MAX_DECIMAL32_FOR_EACH_PRECISION.len() == DECIMAL32_MAX_PRECISION as usize + 1 && DECIMAL32_MAX_PRECISION == 9);
    assert!(MAX_DECIMAL64_FOR_EACH_PRECISION.len() == DECIMAL64_MAX_PRECISION as usize + 1 && DECIMAL64_MAX_PRECISION == 18);
    assert!(MAX_DECIMAL128_FOR_EACH_PRECISION.len() == DECIMAL128_MAX_PRECISION as usize + 1 && DECIMAL128_MAX_PRECISION == 38);
    let mut p10: i128 = 1;
    let mut p = 0usize;
    while p <= 38 {
        if p <= 9 { assert!(MAX_DECIMAL32_FOR_EACH_PRECISION[p] as i128 == p10 - 1 && MIN_DECIMAL32_FOR_EACH_PRECISION[p] as i128 == -(p10 - 1)); }
        if p <= 18 { assert!(MAX_DECIMAL64_FOR_EACH_PRECISION[p] as i128 == p10 - 1 && MIN_DECIMAL64_FOR_EACH_PRECISION[p] as i128 == -(p10 - 1)); }
        assert!(MAX_DECIMAL128_FOR_EACH_PRECISION[p] == p10 - 1 && MIN_DECIMAL128_FOR_EACH_PRECISION[p] == -(p10 - 1));
        if p < 38 { p10 *= 10; }
        p += 1;
    }
    kani::cover!(p10 == 100000000000000000000000000000000000000);
}

/// schoolbook x * 10 on four base-2^64 digits (least significant first); asserts no overflow
fn mul10(d: [u64; 4]) -> [u64; 4] {
    let mut out = [0u64; 4];
    let mut carry: u128 = 0;
    let mut i = 0;
    while i < 4 {
        let t = d[i] as u128 * 10 + carry;
        out[i] = t as u64;
        carry = t >> 64;
        i += 1;
    }
    assert!(carry == 0);
    out
}
/// d - 1 for d > 0
fn dec1(d: [u64; 4]) -> [u64; 4] {
    let mut out = d;
    let mut i = 0;
    while i < 4 {
        if out[i] != 0 { out[i] -= 1; break; }
        out[i] = u64::MAX;
        i += 1;
    }
    out
}
fn dig256(x: i256) -> [u64; 4] {
    let (lo, hi) = x.to_parts();
    [lo as u64, (lo >> 64) as u64, hi as u64, ((hi as u128) >> 64) as u64]
}
fn neg256(d: [u64; 4]) -> [u64; 4] {
    // two's complement negation: !d + 1
    let mut out = [!d[0], !d[1], !d[2], !d[3]];
    let mut i = 0;
    while i < 4 {
        let (v, c) = out[i].overflowing_add(1);
        out[i] = v;
        if !c { break; }
        i += 1;
    }
    out
}

// Contract (C12, C13): for every precision p in 0..=76: MAX_DECIMAL256_FOR_EACH_PRECISION[p] = 10^p - 1 and
// MIN_DECIMAL256_FOR_EACH_PRECISION[p] = -(10^p - 1) as 256-bit two's complement values (10^p by
// schoolbook multiplication on base-2^64 digits); 77 entries; 10^76 - 1 < 2^255.
// @unit name=decimal_tables_256 props=C12,C13 kind=complete fns=MAX_DECIMAL256_FOR_EACH_PRECISION,MIN_DECIMAL256_FOR_EACH_PRECISION tier=thorough was_quick=1 confirmed=0
#[kani::proof]
#[kani::unwind(79)]
fn decimal_tables_256() {
    assert!(MAX_DECIMAL256_FOR_EACH_PRECISION.len() == 77 && MIN_DECIMAL256_FOR_EACH_PRECISION.len() == 77 && DECIMAL256_MAX_PRECISION == 76);
    let mut p10 = [1u64, 0, 0, 0];
    let mut p = 0usize;
    while p <= 76 {
        let m = dec1(p10);
        assert!(m[3] >> 63 == 0);
        assert!(dig256(MAX_DECIMAL256_FOR_EACH_PRECISION[p]) == m);
        assert!(dig256(MIN_DECIMAL256_FOR_EACH_PRECISION[p]) == neg256(m));
        if p < 76 { p10 = mul10(p10); }
        p += 1;
    }
    kani::cover!(p10[3] != 0);
}

// Contract (C12, C13): is_validate_decimalN_precision(v, p) <=> p <= DECIMALn_MAX_PRECISION and
// |v| <= 10^p - 1 (10^p by repeated multiplication), for all v and all p: u8 (N = 32, 64, 128).
// validate_decimalN_precision(v, p, s) = Ok(()) <=> the same condition, Err otherwise, for every scale s.
// @unit name=decimal_validate_native props=C12,C13 kind=complete fns=is_validate_decimal32_precision,is_validate_decimal64_precision,is_validate_decimal_precision,validate_decimal32_precision,validate_decimal64_precision,validate_decimal_precision timeout=900 tier=thorough was_quick=1 confirmed=0
#[kani::proof]
#[kani::unwind(41)]
#[kani::stub(alloc::fmt::format, stub_format)]
#[kani::stub(format_decimal_str, stub_fmt_dec)]
#[kani::stub(format_decimal_str_internal, stub_fmt_dec_internal)]
fn decimal_validate_native() {
    let p: u8 = kani::any();
    let s: i8 = kani::any();
    // 10^p for p <= 38 (else unused)
    let mut p10: i128 = 1;
    let mut k = 0u8;
    while k < 38 {
        if k < p { p10 *= 10; }
        k += 1;
    }
    let (v32, v64, v128): (i32, i64, i128) = (kani::any(), kani::any(), kani::any());
    let ok32 = p <= 9 && (v32 as i128) <= p10 - 1 && (v32 as i128) >= -(p10 - 1);
    let ok64 = p <= 18 && (v64 as i128) <= p10 - 1 && (v64 as i128) >= -(p10 - 1);
    let ok128 = p <= 38 && v128 <= p10 - 1 && v128 >= -(p10 - 1);
    assert!(is_validate_decimal32_precision(v32, p) == ok32);
    assert!(is_validate_decimal64_precision(v64, p) == ok64);
    assert!(is_validate_decimal_precision(v128, p) == ok128);
    let (r32, r64, r128) = (validate_decimal32_precision(v32, p, s), validate_decimal64_precision(v64, p, s), validate_decimal_precision(v128, p, s));
    assert!(r32.is_ok() == ok32 && r64.is_ok() == ok64 && r128.is_ok() == ok128);
    kani::cover!(ok32 && p == 9 && v32 < -99999999);
    kani::cover!(!ok32 && p <= 9);
    kani::cover!(!ok64 && p <= 18 && v64 > 0);
    kani::cover!(ok128 && p == 38 && v128 > 9999999999999999999999999999999999999);
    kani::cover!(!ok128 && p <= 38 && v128 < 0);
    kani::cover!(p > 38);
    kani::cover!(p == 0 && ok32);
    std::mem::forget((r32, r64, r128));
}

// Contract (C12, C13): is_validate_decimal256_precision(v, p) <=> p <= 76 and -(10^p - 1) <= v <= 10^p - 1
// for all 256-bit v and all p: u8; the bounds are the spec's own 10^p - 1 (schoolbook digits) and the
// comparison is the mathematical order on four-digit two's complement values (top digit signed).
// @unit name=decimal_validate_256 props=C12,C13 kind=complete fns=is_validate_decimal256_precision timeout=900 tier=thorough was_quick=1 confirmed=0
#[kani::proof]
#[kani::unwind(79)]
fn decimal_validate_256() {
    let p: u8 = kani::any();
    let v = i256::from_parts(kani::any(), kani::any());
    let mut p10 = [1u64, 0, 0, 0];
    let mut k = 0u8;
    while k < 76 {
        if k < p { p10 = mul10(p10); }
        k += 1;
    }
    let m = dec1(p10);
    let d = dig256(v);
    // v <= m and v >= -m on digits: compare signed top digit, then unsigned digits downwards
    let le = |a: [u64; 4], b: [u64; 4]| -> bool {
        if (a[3] as i64) != (b[3] as i64) { return (a[3] as i64) < (b[3] as i64); }
        if a[2] != b[2] { return a[2] < b[2]; }
        if a[1] != b[1] { return a[1] < b[1]; }
        a[0] <= b[0]
    };
    let ok = p <= 76 && le(d, m) && le(neg256(m), d);
    assert!(is_validate_decimal256_precision(v, p) == ok);
    kani::cover!(ok && p == 76 && d[3] > 1 << 60);
    kani::cover!(ok && p > 40 && (d[3] as i64) < -1);
    kani::cover!(!ok && p <= 76 && (d[3] as i64) >= 0);
    kani::cover!(!ok && p <= 76 && (d[3] as i64) < 0);
    kani::cover!(p > 76);
}
