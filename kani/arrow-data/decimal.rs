// Kani contract harnesses for /repo/arrow-data/src/decimal.rs (child module: sees private items via super::)
