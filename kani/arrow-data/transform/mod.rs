// Kani contract harnesses for /repo/arrow-data/src/transform/mod.rs (child module: sees private items via super::)
