// Kani contract harnesses for /repo/arrow-data/src/byte_view.rs (child module: sees private items via super::)
//
// C08/C09: `validate_binary_view` / `validate_string_view` accept exactly the views that are
// well-formed per the Arrow "Variable-size Binary View Layout"; `wf_view` below is that rule written
// on the 16 little-endian bytes of the view, independently of the code.
// Stubs: alloc::fmt::format -> stub_format (error messages are not part of any contract).
use super::*;
#[path = "/verif/kani/support/spec.rs"]
mod spec;
use spec::*;

/// Arrow format: bytes 0..4 = length (little endian). length <= 12: bytes 4..4+length are the
/// data, all remaining bytes are zero padding. length > 12: bytes 4..8 = first four data bytes
/// (prefix), bytes 8..12 = buffer index, bytes 12..16 = offset; the index designates an existing
/// data buffer, offset + length lies inside it, and the prefix equals the data's first 4 bytes.
fn wf_view(v: u128, bufs: &[&[u8]]) -> bool {
    let b = v.to_le_bytes();
    let len = u32::from_le_bytes([b[0], b[1], b[2], b[3]]) as usize;
    if len <= 12 {
        // every byte after the data is zero (loop-free so that harness unwind bounds stay small)
        (len > 0 || b[4] == 0)
            && (len > 1 || b[5] == 0)
            && (len > 2 || b[6] == 0)
            && (len > 3 || b[7] == 0)
            && (len > 4 || b[8] == 0)
            && (len > 5 || b[9] == 0)
            && (len > 6 || b[10] == 0)
            && (len > 7 || b[11] == 0)
            && (len > 8 || b[12] == 0)
            && (len > 9 || b[13] == 0)
            && (len > 10 || b[14] == 0)
            && (len > 11 || b[15] == 0)
    } else {
        let idx = u32::from_le_bytes([b[8], b[9], b[10], b[11]]) as usize;
        let off = u32::from_le_bytes([b[12], b[13], b[14], b[15]]) as usize;
        if idx >= bufs.len() {
            return false;
        }
        let d = bufs[idx];
        if off + len > d.len() {
            return false; // u32 + u32 cannot overflow usize
        }
        d[off] == b[4] && d[off + 1] == b[5] && d[off + 2] == b[6] && d[off + 3] == b[7]
    }
}
/// the bytes a (well-formed) view designates: (source, start, len) with source 0 = the view itself
fn view_data(v: u128) -> (usize, usize, usize) {
    let b = v.to_le_bytes();
    let len = u32::from_le_bytes([b[0], b[1], b[2], b[3]]) as usize;
    if len <= 12 {
        (0, 4, len)
    } else {
        let idx = u32::from_le_bytes([b[8], b[9], b[10], b[11]]) as usize;
        let off = u32::from_le_bytes([b[12], b[13], b[14], b[15]]) as usize;
        (1 + idx, off, len)
    }
}

// Contract (C08/C09): for ONE arbitrary 128-bit view and data buffers of the given concrete lengths
// with arbitrary contents: validate_binary_view(&[view], buffers) is Ok  <=>  wf_view(view, buffers).
// Both directions (acceptance implies the format predicate; no over-rejection); it never panics and
// never reads outside the buffers (CBMC checks), whatever the view says.
fn binary_view_case<const L0: usize, const L1: usize, const TWO: bool>() {
    let v: u128 = kani::any();
    let d0: [u8; L0] = kani::any();
    let d1: [u8; L1] = kani::any();
    let b0 = Buffer::from_slice_ref(d0);
    let b1 = Buffer::from_slice_ref(d1);
    let (ok, wf) = if TWO {
        let bufs = [b0, b1];
        let r = validate_binary_view(&[v], &bufs);
        let ok = r.is_ok();
        std::mem::forget(r);
        (ok, wf_view(v, &[&d0, &d1]))
    } else {
        let bufs = [b0];
        let r = validate_binary_view(&[v], &bufs);
        let ok = r.is_ok();
        std::mem::forget(r);
        (ok, wf_view(v, &[&d0]))
    };
    assert!(ok == wf);
    let len = v as u32;
    let idx = (v >> 64) as u32;
    kani::cover!(ok && len == 0);
    kani::cover!(ok && len == 12);
    kani::cover!(ok && len == 7);
    kani::cover!(ok && len > 12 && idx == 0);
    kani::cover!(!TWO || (ok && len > 12 && idx == 1));
    kani::cover!(!ok && len <= 12); // non-zero padding
    kani::cover!(!ok && len > 12 && (idx as usize) < 1 + TWO as usize); // bad range or prefix
    kani::cover!(!ok && len > 12 && idx == u32::MAX); // bad buffer index
}
// @unit name=binary_view_iff_wf_1x16 props=C08,C09 kind=bounded bound=1_view_1_buffer_of_16_bytes fns=validate_binary_view,validate_view_impl tier=quick mem=3 timeout=300
#[kani::proof]
#[kani::unwind(15)]
#[kani::stub(alloc::fmt::format, stub_format)]
fn binary_view_iff_wf_1x16() {
    binary_view_case::<16, 0, false>()
}
// @unit name=binary_view_iff_wf_2x20_13 props=C08,C09 kind=bounded bound=1_view_2_buffers_of_20_and_13_bytes fns=validate_binary_view,validate_view_impl tier=quick mem=3 timeout=400
#[kani::proof]
#[kani::unwind(15)]
#[kani::stub(alloc::fmt::format, stub_format)]
fn binary_view_iff_wf_2x20_13() {
    binary_view_case::<20, 13, true>()
}
// @unit name=binary_view_iff_wf_2x0_14 props=C08,C09 kind=bounded bound=1_view_2_buffers_of_0_and_14_bytes fns=validate_binary_view,validate_view_impl tier=quick mem=3 timeout=400
#[kani::proof]
#[kani::unwind(15)]
#[kani::stub(alloc::fmt::format, stub_format)]
fn binary_view_iff_wf_2x0_14() {
    let v: u128 = kani::any();
    let d1: [u8; 14] = kani::any();
    let bufs = [Buffer::from_slice_ref([0u8; 0]), Buffer::from_slice_ref(d1)];
    let r = validate_binary_view(&[v], &bufs);
    let ok = r.is_ok();
    std::mem::forget(r);
    let e: [u8; 0] = [];
    assert!(ok == wf_view(v, &[&e, &d1]));
    kani::cover!(ok && v as u32 == 14);
    kani::cover!(!ok && v as u32 == 13 && (v >> 64) as u32 == 0); // empty buffer: nothing fits
}

// Contract (C08): zero views are trivially valid; two views are valid iff each one is (the loop
// validates every element, and an early invalid view is not masked by a later valid one).
// @unit name=binary_view_two_views props=C08,C09 kind=bounded bound=2_views_1_buffer_of_14_bytes fns=validate_binary_view,validate_view_impl tier=quick mem=3 timeout=400
#[kani::proof]
#[kani::unwind(15)]
#[kani::stub(alloc::fmt::format, stub_format)]
fn binary_view_two_views() {
    let vs: [u128; 2] = kani::any();
    let d0: [u8; 14] = kani::any();
    let bufs = [Buffer::from_slice_ref(d0)];
    let r0 = validate_binary_view(&[], &bufs);
    assert!(r0.is_ok());
    let r = validate_binary_view(&vs, &bufs);
    let ok = r.is_ok();
    std::mem::forget(r);
    std::mem::forget(r0);
    assert!(ok == (wf_view(vs[0], &[&d0]) && wf_view(vs[1], &[&d0])));
    kani::cover!(ok);
    kani::cover!(!ok && wf_view(vs[0], &[&d0]));
    kani::cover!(!ok && wf_view(vs[1], &[&d0]));
}

/// independent UTF-8 well-formedness (Unicode standard, table 3-7), over s[start..start+len]
fn is_utf8(s: &[u8], start: usize, len: usize) -> bool {
    let mut i = 0;
    while i < len {
        let b0 = s[start + i];
        let n = if b0 < 0x80 {
            1
        } else if b0 >= 0xC2 && b0 <= 0xDF {
            2
        } else if b0 >= 0xE0 && b0 <= 0xEF {
            3
        } else if b0 >= 0xF0 && b0 <= 0xF4 {
            4
        } else {
            return false;
        };
        if i + n > len {
            return false;
        }
        if n >= 2 {
            let b1 = s[start + i + 1];
            let (lo, hi) = match b0 {
                0xE0 => (0xA0, 0xBF),
                0xED => (0x80, 0x9F),
                0xF0 => (0x90, 0xBF),
                0xF4 => (0x80, 0x8F),
                _ => (0x80, 0xBF),
            };
            if b1 < lo || b1 > hi {
                return false;
            }
        }
        if n >= 3 {
            let b2 = s[start + i + 2];
            if b2 < 0x80 || b2 > 0xBF {
                return false;
            }
        }
        if n == 4 {
            let b3 = s[start + i + 3];
            if b3 < 0x80 || b3 > 0xBF {
                return false;
            }
        }
        i += n;
    }
    true
}

// Contract (C08/C09): validate_string_view on one arbitrary INLINE view whose length field is the
// concrete value L (one harness per L; all other 96 bits — data and padding — arbitrary):
// Ok <=> wf_view /\ the L designated bytes are valid UTF-8 (independent validator `is_utf8`).
fn string_view_inline_case<const L: u32>() {
    let hi: u128 = kani::any();
    let v: u128 = (hi << 32) | L as u128;
    let bufs: [Buffer; 0] = [];
    let r = validate_string_view(&[v], &bufs);
    let ok = r.is_ok();
    std::mem::forget(r);
    let b = v.to_le_bytes();
    let (_, start, len) = view_data(v);
    assert!(len == L as usize && start == 4);
    let e: [&[u8]; 0] = [];
    assert!(ok == (wf_view(v, &e) && is_utf8(&b, start, len)));
    kani::cover!(L < 2 || (ok && b[4] >= 0x80));
    kani::cover!(ok && b[4] < 0x80);
    kani::cover!(!ok && wf_view(v, &e)); // rejected for UTF-8 only
    kani::cover!(!ok && is_utf8(&b, start, len)); // rejected for padding only
}
macro_rules! string_view_inline_unit {
    ($name:ident, $l:expr) => {
        #[kani::proof]
        #[kani::unwind(7)]
        #[kani::stub(alloc::fmt::format, stub_format)]
        fn $name() {
            string_view_inline_case::<$l>()
        }
    };
}
// @unit name=string_view_inline_iff_wf_utf8_len1 props=C08,C09 kind=bounded bound=1_inline_view_length=1 fns=validate_string_view,validate_view_impl tier=thorough mem=4 timeout=900
string_view_inline_unit!(string_view_inline_iff_wf_utf8_len1, 1);
// @unit name=string_view_inline_iff_wf_utf8_len2 props=C08,C09 kind=bounded bound=1_inline_view_length=2 fns=validate_string_view,validate_view_impl tier=thorough mem=4 timeout=900
string_view_inline_unit!(string_view_inline_iff_wf_utf8_len2, 2);
// @unit name=string_view_inline_iff_wf_utf8_len3 props=C08,C09 kind=bounded bound=1_inline_view_length=3 fns=validate_string_view,validate_view_impl tier=thorough mem=4 timeout=900
string_view_inline_unit!(string_view_inline_iff_wf_utf8_len3, 3);
// @unit name=string_view_inline_iff_wf_utf8_len4 props=C08,C09 kind=bounded bound=1_inline_view_length=4 fns=validate_string_view,validate_view_impl tier=thorough mem=4 timeout=900
string_view_inline_unit!(string_view_inline_iff_wf_utf8_len4, 4);

// Contract (C08/C09): no over-rejection on real strings — an inline view built (per the format) for
// the UTF-8 encoding of two arbitrary chars (2..=8 bytes, zero padding) is accepted by
// validate_string_view. (Cut down from 3 chars + a 13-byte buffer: that version did not finish in
// 1500 s / 5 GB on the loaded machine.)
// @unit name=string_view_accepts_real_strings props=C08,C09 kind=bounded bound=2_chars_inline fns=validate_string_view,validate_view_impl tier=thorough mem=4 timeout=900
#[kani::proof]
#[kani::unwind(10)]
#[kani::stub(alloc::fmt::format, stub_format)]
fn string_view_accepts_real_strings() {
    let cs: [char; 2] = kani::any();
    let mut b = [0u8; 16];
    let mut n = 0;
    for c in cs.iter() {
        n += c.encode_utf8(&mut b[4 + n..12]).len();
    }
    b[0] = n as u8;
    let v = u128::from_le_bytes(b);
    let bufs: [Buffer; 0] = [];
    let r = validate_string_view(&[v], &bufs);
    assert!(r.is_ok());
    std::mem::forget(r);
    kani::cover!(n == 8);
    kani::cover!(n == 2);
    kani::cover!(n == 5);
}

// Contract (C08): the UTF-8 check also applies to buffer-resident (non-inline) data: a view of
// length 13 over the buffer "aaaaaaaaaaa" + two arbitrary bytes (x, y), with an arbitrary prefix
// field, is accepted <=> the prefix field is "aaaa" /\ the two-byte tail is valid UTF-8 (two ASCII
// bytes or one well-formed 2-byte sequence). (A version with 13 arbitrary bytes, and one with 12
// ASCII-masked symbolic bytes, did not finish: 1500 s, 5-10 GB — std::str::from_utf8 on symbolic
// data is the cost.)
// @unit name=string_view_buffer_tail_utf8 props=C08,C09 kind=bounded bound=1_view_over_13_byte_buffer_11_concrete_2_symbolic fns=validate_string_view,validate_view_impl tier=thorough mem=12 timeout=900
#[kani::proof]
#[kani::unwind(15)]
#[kani::stub(alloc::fmt::format, stub_format)]
fn string_view_buffer_tail_utf8() {
    let (x, y): (u8, u8) = (kani::any(), kani::any());
    let mut d = [0x61u8; 13];
    d[11] = x;
    d[12] = y;
    let prefix: [u8; 4] = kani::any();
    let bv = ByteView { length: 13, prefix: u32::from_le_bytes(prefix), buffer_index: 0, offset: 0 };
    let bufs = [Buffer::from_slice_ref(d)];
    let r = validate_string_view(&[bv.as_u128()], &bufs);
    let ok = r.is_ok();
    std::mem::forget(r);
    let prefix_ok = prefix == [0x61; 4];
    assert!(ok == (prefix_ok && is_utf8(&d, 11, 2)));
    kani::cover!(ok && x >= 0x80);
    kani::cover!(ok && x < 0x80);
    kani::cover!(!ok && prefix_ok);
    kani::cover!(!ok && is_utf8(&d, 11, 2));
}

// Contract (C08): `ByteView::from(u128)` and `as_u128` / `Into<u128>` are inverse bijections, and the
// field placement is the format's: length = bytes 0..4, prefix = 4..8, buffer_index = 8..12,
// offset = 12..16 of the little-endian view. `new`/`with_buffer_index`/`with_offset` set exactly
// their field. For all 2^128 values / all field values.
// @unit name=byte_view_u128_bijection props=C08 kind=complete fns=ByteView::from,ByteView::as_u128,u128::from<ByteView>,ByteView::new,ByteView::with_buffer_index,ByteView::with_offset tier=quick mem=2 timeout=120
#[kani::proof]
#[kani::unwind(6)]
fn byte_view_u128_bijection() {
    let v: u128 = kani::any();
    let bv = ByteView::from(v);
    assert!(bv.as_u128() == v);
    let back: u128 = bv.into();
    assert!(back == v);
    let b = v.to_le_bytes();
    assert!(bv.length == u32::from_le_bytes([b[0], b[1], b[2], b[3]]));
    assert!(bv.prefix == u32::from_le_bytes([b[4], b[5], b[6], b[7]]));
    assert!(bv.buffer_index == u32::from_le_bytes([b[8], b[9], b[10], b[11]]));
    assert!(bv.offset == u32::from_le_bytes([b[12], b[13], b[14], b[15]]));
    let (l, p, i, o): (u32, u32, u32, u32) = (kani::any(), kani::any(), kani::any(), kani::any());
    let w = ByteView { length: l, prefix: p, buffer_index: i, offset: o };
    let r = ByteView::from(w.as_u128());
    assert!(r.length == l && r.prefix == p && r.buffer_index == i && r.offset == o);
    kani::assume(l > 12);
    let n = ByteView::new(l, &p.to_le_bytes()).with_buffer_index(i).with_offset(o);
    assert!(n.length == l && n.prefix == p && n.buffer_index == i && n.offset == o);
    let n0 = ByteView::new(l, &p.to_le_bytes());
    assert!(n0.buffer_index == 0 && n0.offset == 0);
    kani::cover!(v > u64::MAX as u128);
}
