// Kani contract harnesses for /repo/arrow-data/src/byte_view.rs (child module: sees private items via super::)
