// Kani contract harnesses for /repo/arrow-select/src/filter.rs (child module: sees private items via super::)
use super::*;
#[path = "/verif/kani/support/spec.rs"]
mod spec;
use spec::*;
use arrow_array::types::BinaryType;

// ------------------------------------------------------------------------------------------------
// model helpers (naive, written from the property statement)
// ------------------------------------------------------------------------------------------------

/// the predicate as a plain bool array: row i is *selected* iff its value bit is 1 and (when a
/// validity bitmap is given) its validity bit is 1 — "null predicate = not selected"
fn model<const N: usize>(vb: &[u8], voff: usize, nulls: Option<(&[u8], usize)>) -> [bool; N] {
    let mut m = [false; N];
    let mut i = 0;
    while i < N {
        m[i] = bit(vb, voff + i) && match nulls { Some((bm, boff)) => bit(bm, boff + i), None => true };
        i += 1;
    }
    m
}
fn count_true<const N: usize>(m: &[bool; N]) -> usize {
    let mut c = 0;
    let mut i = 0;
    while i < N {
        if m[i] { c += 1 }
        i += 1;
    }
    c
}
/// position of the k-th (0-based) selected row, N if there is none
fn kth<const N: usize>(m: &[bool; N], k: usize) -> usize {
    let mut seen = 0;
    let mut i = 0;
    while i < N {
        if m[i] {
            if seen == k { return i; }
            seen += 1;
        }
        i += 1;
    }
    N
}
fn mk_pred(vb: &[u8], voff: usize, n: usize, nulls: Option<(&[u8], usize)>) -> BooleanArray {
    let values = BooleanBuffer::new(Buffer::from_slice_ref(vb), voff, n);
    let nulls = nulls.map(|(bm, boff)| NullBuffer::new(BooleanBuffer::new(Buffer::from_slice_ref(bm), boff, n)));
    BooleanArray::new(values, nulls)
}

// ------------------------------------------------------------------------------------------------
// layer 0
// ------------------------------------------------------------------------------------------------

// Contract (C03): IterationStrategy::default_strategy(len, count) for every len and every count <= len
// (count is the number of selected rows):  None <=> len == 0 \/ count == 0;  All <=> count == len /\
// count != 0;  otherwise one of the two *lazy* strategies (which one is a performance choice and not
// part of the contract) — never a materialised strategy.
// @unit name=default_strategy_contract props=C03 kind=complete fns=IterationStrategy::default_strategy tier=quick
#[kani::proof]
fn default_strategy_contract() {
    let len: usize = kani::any();
    let count: usize = kani::any();
    kani::assume(count <= len);
    let s = IterationStrategy::default_strategy(len, count);
    let none = matches!(s, IterationStrategy::None);
    let all = matches!(s, IterationStrategy::All);
    let lazy_s = matches!(s, IterationStrategy::SlicesIterator);
    let lazy_i = matches!(s, IterationStrategy::IndexIterator);
    assert!(none == (len == 0 || count == 0));
    assert!(all == (count == len && count != 0));
    assert!(none || all || lazy_s || lazy_i);
    kani::cover!(none && len > 0);
    kani::cover!(all);
    kani::cover!(lazy_s && len < 100);
    kani::cover!(lazy_i && len > (1usize << 40));
    std::mem::forget(s);
}

// Contract (C03): prep_null_mask_filter(p) for a predicate with a validity bitmap (values and validity
// windows at the bit offsets of the instance — concrete, because the kernel allocates its result): the result has no validity bitmap, the same length, and row i
// is true exactly when p's row i is true and valid (a null predicate slot is not selected).
// The two bit offsets of an instance always differ modulo 64: for equal offsets `&` on BooleanBuffers takes
// a path built on <[u8]>::align_to::<u64>() whose prefix/suffix lengths depend on the allocation address;
// CBMC then sees symbolic lengths flowing into collect() (measured: rows=3, offsets (0,0): timeout after
// 1246 CPU-seconds, against 19 CPU-seconds for rows=9, offsets (2,7)). That path is not covered.
macro_rules! prep_null_mask {
    ($name:ident, $n:expr, $voff:expr, $boff:expr) => {
        #[kani::proof]
        #[kani::unwind(20)]
        #[kani::stub(alloc::fmt::format, stub_format)]
        fn $name() {
            const N: usize = $n;
            let vb: [u8; 3] = kani::any();
            let bm: [u8; 3] = kani::any();
            let (voff, boff): (usize, usize) = ($voff, $boff);
            let p = mk_pred(&vb, voff, N, Some((&bm, boff)));
            let m = model::<N>(&vb, voff, Some((&bm, boff)));
            let r = prep_null_mask_filter(&p);
            assert!(r.len() == N);
            assert!(r.nulls().is_none());
            let mut i = 0;
            while i < N {
                assert!(r.value(i) == m[i]);
                i += 1;
            }
            assert!(r.true_count() == count_true(&m));
            kani::cover!(p.null_count() > 0 && count_true(&m) > 0 && count_true(&m) < p.true_count() + 1);
            kani::cover!(count_true(&m) == N);
            std::mem::forget(r);
            std::mem::forget(p);
        }
    };
}
// @unit name=prep_null_mask_n5 props=C03 kind=bounded bound=rows=5_bit_offsets=(0,3) fns=prep_null_mask_filter tier=quick
prep_null_mask!(prep_null_mask_n5, 5, 0, 3);
// @unit name=prep_null_mask_n9_off props=C03 kind=bounded bound=rows=9_bit_offsets=(3,6) fns=prep_null_mask_filter tier=quick
prep_null_mask!(prep_null_mask_n9_off, 9, 3, 6);
// @unit name=prep_null_mask_n16 props=C03 kind=bounded bound=rows=16_bit_offsets=(5,0) fns=prep_null_mask_filter tier=quick
prep_null_mask!(prep_null_mask_n16, 16, 5, 0);

// Contract (C03): FilterBuilder::new(p).build() for a predicate of N rows (values/validity symbolic,
// validity presence and bit offsets concrete per instance): count() == #(true /\ valid); the stored filter has N
// rows, no nulls left, and row i set exactly when p selects row i; the strategy is None iff nothing is
// selected, All iff everything is, and lazy otherwise (build never materialises).
macro_rules! builder_count {
    ($name:ident, $n:expr, $voff:expr, $boff:expr, $nulls:expr) => {
        #[kani::proof]
        #[kani::unwind(20)]
        #[kani::stub(alloc::fmt::format, stub_format)]
        fn $name() {
            const N: usize = $n;
            let vb: [u8; 3] = kani::any();
            let bm: [u8; 3] = kani::any();
            let (voff, boff): (usize, usize) = ($voff, $boff);
            let with_nulls: bool = $nulls;
            let nl = if with_nulls { Some((&bm[..], boff)) } else { None };
            let p = mk_pred(&vb, voff, N, nl);
            let m = model::<N>(&vb, voff, nl);
            let c = count_true(&m);
            let fp = FilterBuilder::new(&p).build();
            assert!(fp.count() == c);
            assert!(fp.filter.len() == N);
            assert!(fp.filter.null_count() == 0);
            let mut i = 0;
            while i < N {
                assert!(fp.filter.value(i) == m[i]);
                i += 1;
            }
            assert!(matches!(fp.strategy, IterationStrategy::None) == (c == 0));
            assert!(matches!(fp.strategy, IterationStrategy::All) == (c == N));
            assert!(matches!(fp.strategy, IterationStrategy::None | IterationStrategy::All | IterationStrategy::SlicesIterator | IterationStrategy::IndexIterator));
            kani::cover!(!with_nulls || (p.null_count() > 0 && c > 0 && c < N));
            kani::cover!(c == N);
            kani::cover!(c == 0 && (!with_nulls || p.null_count() > 0));
            std::mem::forget(fp);
            std::mem::forget(p);
        }
    };
}
// @unit name=builder_count_n3 props=C03 kind=bounded bound=rows=3_no_validity_bit_offset=0 fns=FilterBuilder::new,FilterBuilder::build,FilterPredicate::count tier=thorough
builder_count!(builder_count_n3, 3, 0, 0, false);
// @unit name=builder_count_n3_nulls props=C03 kind=bounded bound=rows=3_with_validity_bit_offsets=(0,5) fns=FilterBuilder::new,FilterBuilder::build,FilterPredicate::count,prep_null_mask_filter timeout=1200 mem=4 tier=quick
builder_count!(builder_count_n3_nulls, 3, 0, 5, true);
// @unit name=builder_count_n9 props=C03 kind=bounded bound=rows=9_no_validity_bit_offset=2 fns=FilterBuilder::new,FilterBuilder::build,FilterPredicate::count timeout=1200 mem=4 tier=quick
builder_count!(builder_count_n9, 9, 2, 7, false);
// @unit name=builder_count_n9_nulls props=C03 kind=bounded bound=rows=9_with_validity_bit_offsets=(2,7) fns=FilterBuilder::new,FilterBuilder::build,FilterPredicate::count,prep_null_mask_filter timeout=1200 mem=4 tier=quick
builder_count!(builder_count_n9_nulls, 9, 2, 7, true);
// @unit name=builder_count_n16_nulls props=C03 kind=bounded bound=rows=16_with_validity_bit_offsets=(0,4) fns=FilterBuilder::new,FilterBuilder::build,FilterPredicate::count,prep_null_mask_filter timeout=1200 mem=4 tier=quick
builder_count!(builder_count_n16_nulls, 16, 0, 4, true);

// Contract (C03): IndexIterator::new(mask, remaining = #set) yields exactly the set positions of the
// mask in ascending order and then None; SlicesIterator yields exactly the maximal runs [start, end) of
// set bits, in order (consecutive runs are separated by at least one clear bit, every bit inside a run
// is set, every set bit is inside a run) and then None. Mask: N bits at the bit offset of the instance.
macro_rules! index_iter {
    ($name:ident, $n:expr, $voff:expr) => {
        #[kani::proof]
        #[kani::unwind(16)]
        #[kani::stub(alloc::fmt::format, stub_format)]
        fn $name() {
            const N: usize = $n;
            let vb: [u8; 3] = kani::any();
            let voff: usize = $voff;
            let p = mk_pred(&vb, voff, N, None);
            let m = model::<N>(&vb, voff, None);
            let c = count_true(&m);
            let mut it = IndexIterator::new(&p, c);
            assert!(it.size_hint() == (c, Some(c)));
            // drain: at most N items, then None
            let mut got = [usize::MAX; N];
            let mut n = 0;
            while n < N {
                match it.next() {
                    Some(i) => { got[n] = i; n += 1; }
                    None => break,
                }
            }
            assert!(n == c);
            if n == N { assert!(it.next().is_none()); }
            // the items are exactly the set positions, ascending (compared with the naive scan)
            let mut k = 0;
            let mut i = 0;
            while i < N {
                if m[i] {
                    assert!(got[k] == i);
                    k += 1;
                }
                i += 1;
            }
            kani::cover!(c == N);
            kani::cover!(c == 0);
            kani::cover!(c == 2 && m[0] && m[N - 1]);
            std::mem::forget(it);
            std::mem::forget(p);
        }
    };
}
// @unit name=index_iter_n6 props=C03 kind=bounded bound=mask=6_bits_bit_offset=0 fns=IndexIterator::new,IndexIterator::next tier=thorough note=passed_in_earlier_non-lean_form_144_cpu_s_same_macro_as_index_iter_n6_off5_lean_form_not_rerun
index_iter!(index_iter_n6, 6, 0);
// @unit name=index_iter_n6_off5 props=C03 kind=bounded bound=mask=6_bits_bit_offset=5_(crosses_a_byte) fns=IndexIterator::new,IndexIterator::next tier=thorough
index_iter!(index_iter_n6_off5, 6, 5);
// @unit name=index_iter_n10 props=C03 kind=bounded bound=mask=10_bits_bit_offset=3 fns=IndexIterator::new,IndexIterator::next timeout=900 mem=6 tier=thorough note=not_confirmed_not_run
index_iter!(index_iter_n10, 10, 3);

macro_rules! slices_iter {
    ($name:ident, $n:expr, $voff:expr) => {
        #[kani::proof]
        #[kani::unwind(16)]
        #[kani::stub(alloc::fmt::format, stub_format)]
        fn $name() {
            const N: usize = $n;
            const R: usize = (N + 1) / 2;                 // a mask of N bits has at most ceil(N/2) runs
            let vb: [u8; 3] = kani::any();
            let voff: usize = $voff;
            let p = mk_pred(&vb, voff, N, None);
            let m = model::<N>(&vb, voff, None);
            let mut it = SlicesIterator::new(&p);
            // drain: at most R runs, then None
            let mut got = [(usize::MAX, usize::MAX); R];
            let mut n = 0;
            let mut done = false;
            while n < R {
                match it.next() {
                    Some(r) => { got[n] = r; n += 1; }
                    None => { done = true; break; }
                }
            }
            if !done { assert!(it.next().is_none()); }
            // naive scan for maximal runs
            let mut pos = 0;
            let mut runs = 0;
            while pos < N {
                if m[pos] {
                    let start = pos;
                    while pos < N && m[pos] { pos += 1; }
                    assert!(runs < n && got[runs] == (start, pos));
                    runs += 1;
                } else {
                    pos += 1;
                }
            }
            assert!(runs == n);
            kani::cover!(runs == R);
            kani::cover!(runs == 1 && m[0] && m[N - 1]);
            kani::cover!(runs == 0);
            std::mem::forget(it);
            std::mem::forget(p);
        }
    };
}
// @unit name=slices_iter_n6 props=C03 kind=bounded bound=mask=6_bits_bit_offset=0 fns=SlicesIterator::new,SlicesIterator::next tier=thorough
slices_iter!(slices_iter_n6, 6, 0);
// @unit name=slices_iter_n6_off5 props=C03 kind=bounded bound=mask=6_bits_bit_offset=5_(crosses_a_byte) fns=SlicesIterator::new,SlicesIterator::next tier=thorough
slices_iter!(slices_iter_n6_off5, 6, 5);
// @unit name=slices_iter_n10 props=C03 kind=bounded bound=mask=10_bits_bit_offset=3 fns=SlicesIterator::new,SlicesIterator::next timeout=900 mem=6 tier=thorough note=not_confirmed_not_run
slices_iter!(slices_iter_n10, 10, 3);

// Contract (C03): FilterBuilder::optimize materialises exactly what the lazy iterator would yield:
// for a mask of N bits with exactly K set (K concrete per instance, so that the allocation made by
// `collect` has a concrete size), an IndexIterator strategy becomes Indices(v) with v = the K set
// positions ascending; a SlicesIterator strategy becomes Slices(v) with v = the maximal runs in order;
// count and filter are unchanged; None/All are left alone.
macro_rules! optimize_indices {
    ($name:ident, $n:expr, $k:expr) => {
        #[kani::proof]
        #[kani::unwind(12)]
        #[kani::stub(alloc::fmt::format, stub_format)]
        fn $name() {
            const N: usize = $n;
            const K: usize = $k;
            let vb: [u8; 2] = kani::any();
            let voff: usize = 3;
            let m = model::<N>(&vb, voff, None);
            kani::assume(count_true(&m) == K);
            let p = mk_pred(&vb, voff, N, None);
            let b = FilterBuilder::new_with_count(&p, K);
            assert!(matches!(b.strategy, IterationStrategy::IndexIterator));   // 5K <= 4N for the instances below
            let fp = b.optimize().build();
            assert!(fp.count() == K);
            match &fp.strategy {
                IterationStrategy::Indices(v) => {
                    assert!(v.len() == K);
                    let mut k = 0;
                    while k < K {
                        assert!(v[k] == kth(&m, k));
                        k += 1;
                    }
                }
                _ => assert!(false),
            }
            let j: usize = kani::any();
            kani::assume(j < N);
            assert!(fp.filter.value(j) == m[j]);
            kani::cover!(m[0] && m[N - 1]);
            kani::cover!(!m[0]);
            std::mem::forget(fp);
            std::mem::forget(p);
        }
    };
}
// @unit name=optimize_indices_n6_k2 props=C03 kind=bounded bound=mask=6_bits_exactly_2_set_bit_offset=3 fns=FilterBuilder::optimize,FilterBuilder::new_with_count,IndexIterator::collect timeout=900 mem=6 tier=quick
optimize_indices!(optimize_indices_n6_k2, 6, 2);
// @unit name=optimize_indices_n5_k4 props=C03 kind=bounded bound=mask=5_bits_exactly_4_set_bit_offset=3 fns=FilterBuilder::optimize,FilterBuilder::new_with_count,IndexIterator::collect timeout=900 mem=6 tier=quick
optimize_indices!(optimize_indices_n5_k4, 5, 4);

// @unit name=optimize_slices_n8_k7 props=C03 kind=bounded bound=mask=8_bits_exactly_7_set_bit_offset=3 fns=FilterBuilder::optimize,FilterBuilder::new_with_count,SlicesIterator::next timeout=900 mem=6 tier=thorough note=not_confirmed_out_of_memory_measured
#[kani::proof]
#[kani::unwind(12)]
#[kani::stub(alloc::fmt::format, stub_format)]
fn optimize_slices_n8_k7() {
    const N: usize = 8;
    let vb: [u8; 2] = kani::any();
    let voff: usize = 3;
    let m = model::<N>(&vb, voff, None);
    kani::assume(count_true(&m) == 7);
    let hole = kth(&[!m[0], !m[1], !m[2], !m[3], !m[4], !m[5], !m[6], !m[7]], 0);
    let p = mk_pred(&vb, voff, N, None);
    let b = FilterBuilder::new_with_count(&p, 7);
    assert!(matches!(b.strategy, IterationStrategy::SlicesIterator));          // 7/8 > 0.8
    let fp = b.optimize().build();
    assert!(fp.count() == 7);
    match &fp.strategy {
        IterationStrategy::Slices(v) => {
            if hole == 0 { assert!(v.len() == 1 && v[0] == (1, 8)); }
            else if hole == 7 { assert!(v.len() == 1 && v[0] == (0, 7)); }
            else { assert!(v.len() == 2 && v[0] == (0, hole) && v[1] == (hole + 1, 8)); }
        }
        _ => assert!(false),
    }
    kani::cover!(hole == 0);
    kani::cover!(hole == 3);
    kani::cover!(hole == 7);
    std::mem::forget(fp);
    std::mem::forget(p);
}

// ------------------------------------------------------------------------------------------------
// layer 1: the copying kernels, driven by a *materialised* strategy. The materialised strategy is the
// contract stub of layer 0: by optimize_* above, Indices(v)/Slices(v) hold exactly the selected
// positions / maximal runs of the mask; here v is an arbitrary sequence with that shape (ascending
// in-range positions; ordered, disjoint, non-empty in-range runs) and the kernel must move exactly
// those rows, in order. No bit iterator runs in these harnesses.
// ------------------------------------------------------------------------------------------------

/// a FilterPredicate over `n` rows with the given materialised strategy and count (the `filter` mask is
/// only consulted for its length by the kernels under test when the strategy is materialised)
fn materialised(n: usize, count: usize, strategy: IterationStrategy) -> FilterPredicate {
    let vb = [0xFFu8; 2];
    FilterPredicate { filter: mk_pred(&vb, 0, n, None), count, strategy }
}
/// K ascending positions < n
fn any_positions<const K: usize>(n: usize) -> [usize; K] {
    let v: [usize; K] = kani::any();
    let mut i = 0;
    while i < K {
        kani::assume(v[i] < n);
        if i > 0 { kani::assume(v[i - 1] < v[i]); }
        i += 1;
    }
    v
}

// Contract (C03): filter_native::<i32>(values, predicate) with strategy Indices(v), |v| = K ascending
// positions < N: the output buffer holds exactly K elements and element k == values[v[k]] (the rows the
// predicate selects, in order, nothing else).
macro_rules! native_indices {
    ($name:ident, $n:expr, $k:expr) => {
        #[kani::proof]
        #[kani::unwind(8)]
        #[kani::stub(alloc::fmt::format, stub_format)]
        fn $name() {
            const N: usize = $n;
            const K: usize = $k;
            let vals: [i32; N] = kani::any();
            let v = any_positions::<K>(N);
            let fp = materialised(N, K, IterationStrategy::Indices(v.to_vec()));
            let out = filter_native::<i32>(&vals, &fp);
            let o: &[i32] = out.typed_data();
            assert!(o.len() == K);
            let mut k = 0;
            while k < K {
                assert!(o[k] == vals[v[k]]);
                k += 1;
            }
            kani::cover!(v[0] > 0);
            kani::cover!(v[K - 1] == N - 1);
            std::mem::forget(fp);
        }
    };
}
// @unit name=native_indices_n3_k2 props=C03 kind=bounded bound=rows=3_selected=2_strategy=Indices fns=filter_native timeout=900 mem=8 tier=quick
native_indices!(native_indices_n3_k2, 3, 2);
// @unit name=native_indices_n4_k2 props=C03 kind=bounded bound=rows=4_selected=2_strategy=Indices fns=filter_native timeout=900 mem=8 tier=quick
native_indices!(native_indices_n4_k2, 4, 2);
// @unit name=native_indices_n6_k3 props=C03 kind=bounded bound=rows=6_selected=3_strategy=Indices fns=filter_native timeout=900 mem=8 tier=quick
native_indices!(native_indices_n6_k3, 6, 3);

// Contract (C03): filter_native::<i32> with strategy Slices([(s0,e0),(s1,e1)]) — two ordered, disjoint,
// non-empty runs inside N rows whose total length is the predicate's count C (concrete) — outputs
// exactly values[s0..e0] ++ values[s1..e1].
macro_rules! native_slices {
    ($name:ident, $n:expr, $c:expr) => {
        #[kani::proof]
        #[kani::unwind(8)]
        #[kani::stub(alloc::fmt::format, stub_format)]
        fn $name() {
            const N: usize = $n;
            const C: usize = $c;
            let vals: [i32; N] = kani::any();
            let (s0, e0, s1, e1): (usize, usize, usize, usize) = kani::any();
            kani::assume(s0 < e0 && e0 < s1 && s1 < e1 && e1 <= N);
            kani::assume((e0 - s0) + (e1 - s1) == C);
            let fp = materialised(N, C, IterationStrategy::Slices(vec![(s0, e0), (s1, e1)]));
            let out = filter_native::<i32>(&vals, &fp);
            let o: &[i32] = out.typed_data();
            assert!(o.len() == C);
            let mut k = 0;
            while k < C {
                let src = if k < e0 - s0 { s0 + k } else { s1 + (k - (e0 - s0)) };
                assert!(o[k] == vals[src]);
                k += 1;
            }
            kani::cover!(s0 == 0 && e1 == N);
            kani::cover!(s0 > 0);
            std::mem::forget(fp);
        }
    };
}
// @unit name=native_slices_n5_c3 props=C03 kind=bounded bound=rows=5_selected=3_two_runs_(symbolic_boundaries)_strategy=Slices fns=filter_native timeout=900 mem=8 tier=thorough
native_slices!(native_slices_n5_c3, 5, 3);

// Contract (C03): filter_bits(bits, predicate) with strategy Indices(v), |v| = K ascending positions < N,
// on a source bitmap of N bits at bit offset 6 (crossing a byte): output bit k == source bit v[k] for k < K.
// FilterPredicate::filter_nulls(Some(validity)) with the same predicate: output row k is valid <=>
// source row v[k] is valid; the result is None exactly when every selected row is valid (and then there
// is nothing to track); the stored null count is exact.
macro_rules! bits_indices {
    ($name:ident, $n:expr, $k:expr) => {
        #[kani::proof]
        #[kani::unwind(10)]
        #[kani::stub(alloc::fmt::format, stub_format)]
        fn $name() {
            const N: usize = $n;
            const K: usize = $k;
            let sb: [u8; 2] = kani::any();
            let soff: usize = 6;
            let src = BooleanBuffer::new(Buffer::from_slice_ref(&sb), soff, N);
            let v = any_positions::<K>(N);
            let fp = materialised(N, K, IterationStrategy::Indices(v.to_vec()));
            let out = filter_bits(&src, &fp);
            let mut k = 0;
            while k < K {
                assert!(bit(out.as_slice(), k) == bit(&sb, soff + v[k]));
                k += 1;
            }
            let nulls = NullBuffer::new(src);
            let fnulls = fp.filter_nulls(Some(&nulls));
            let mut z = 0;
            k = 0;
            while k < K {
                let valid = bit(&sb, soff + v[k]);
                if !valid { z += 1 }
                match &fnulls { Some(o) => assert!(o.is_valid(k) == valid), None => assert!(valid) }
                k += 1;
            }
            match &fnulls {
                Some(o) => { assert!(o.len() == K); assert!(o.null_count() == z && z > 0); }
                None => assert!(z == 0),
            }
            kani::cover!(fnulls.is_some() && z < K);
            kani::cover!(fnulls.is_none() && nulls.null_count() > 0);      // nulls exist but none selected
            std::mem::forget(fp);
        }
    };
}
// @unit name=bits_indices_n4_k2 props=C03 kind=bounded bound=rows=4_selected=2_strategy=Indices_source_bit_offset=6 fns=filter_bits,FilterPredicate::filter_nulls timeout=900 mem=8 tier=quick
bits_indices!(bits_indices_n4_k2, 4, 2);

// Contract (C03): filter_bits with strategy Slices([(S0,E0),(S1,E1)]) (two ordered disjoint non-empty runs,
// concrete per instance: with symbolic run boundaries BooleanBufferBuilder::append_packed_range exceeded
// 10 GB after 333 CPU-seconds) over symbolic source bits at bit offset 6: output bit k == source bit of
// the k-th row of S0..E0 ++ S1..E1.
macro_rules! bits_slices {
    ($name:ident, $n:expr, $s0:expr, $e0:expr, $s1:expr, $e1:expr) => {
        #[kani::proof]
        #[kani::unwind(10)]
        #[kani::stub(alloc::fmt::format, stub_format)]
        fn $name() {
            const N: usize = $n;
            let (s0, e0, s1, e1): (usize, usize, usize, usize) = ($s0, $e0, $s1, $e1);
            let c = (e0 - s0) + (e1 - s1);
            let sb: [u8; 2] = kani::any();
            let soff: usize = 6;
            let src = BooleanBuffer::new(Buffer::from_slice_ref(&sb), soff, N);
            let fp = materialised(N, c, IterationStrategy::Slices(vec![(s0, e0), (s1, e1)]));
            let out = filter_bits(&src, &fp);
            let mut k = 0;
            while k < c {
                let srow = if k < e0 - s0 { s0 + k } else { s1 + (k - (e0 - s0)) };
                assert!(bit(out.as_slice(), k) == bit(&sb, soff + srow));
                k += 1;
            }
            kani::cover!(bit(out.as_slice(), 0) && !bit(out.as_slice(), c - 1));
            std::mem::forget(fp);
        }
    };
}
// @unit name=bits_slices_n5_runs_0_2_3_5 props=C03 kind=bounded bound=rows=5_runs=[0,2)+[3,5)_strategy=Slices_source_bit_offset=6 fns=filter_bits timeout=900 mem=8 tier=quick
bits_slices!(bits_slices_n5_runs_0_2_3_5, 5, 0, 2, 3, 5);
// @unit name=bits_slices_n5_runs_1_2_3_4 props=C03 kind=bounded bound=rows=5_runs=[1,2)+[3,4)_strategy=Slices_source_bit_offset=6 fns=filter_bits timeout=900 mem=8 tier=quick
bits_slices!(bits_slices_n5_runs_1_2_3_4, 5, 1, 2, 3, 4);

// Contract (C03, single attempt): FilterBytes::{extend_offsets_idx, extend_idx} — the core of filter_bytes
// for the Indices strategy — on a Binary array of 3 rows (offsets symbolic monotone into 6 symbolic bytes)
// and K = 2 ascending positions: dst_offsets == [0, len(v0), len(v0)+len(v1)] (prefix sums of the selected
// lengths) and dst_values == value(v0) ++ value(v1).
// @unit name=filter_bytes_idx_n3_k2 props=C03 kind=bounded bound=rows=3_value_bytes<=6_selected=2_strategy=Indices fns=FilterBytes::new,FilterBytes::extend_offsets_idx,FilterBytes::extend_idx timeout=900 mem=10 tier=quick
#[kani::proof]
#[kani::unwind(9)]
#[kani::stub(alloc::fmt::format, stub_format)]
fn filter_bytes_idx_n3_k2() {
    let offs: [i32; 4] = kani::any();
    kani::assume(offs[0] >= 0 && offs[0] <= offs[1] && offs[1] <= offs[2] && offs[2] <= offs[3] && offs[3] <= 6);
    let bytes: [u8; 6] = kani::any();
    let ob = unsafe { OffsetBuffer::new_unchecked(ScalarBuffer::new(Buffer::from_slice_ref(&offs), 0, 4)) };
    let a = unsafe { GenericByteArray::<BinaryType>::new_unchecked(ob, Buffer::from_slice_ref(&bytes), None) };
    let v = any_positions::<2>(3);
    let mut f = FilterBytes::new(2, &a);
    f.extend_offsets_idx(v.iter().copied());
    f.extend_idx(v.iter().copied());
    let l0 = (offs[v[0] + 1] - offs[v[0]]) as usize;
    let l1 = (offs[v[1] + 1] - offs[v[1]]) as usize;
    assert!(f.dst_offsets.len() == 3);
    assert!(f.dst_offsets[0] == 0 && f.dst_offsets[1] as usize == l0 && f.dst_offsets[2] as usize == l0 + l1);
    assert!(f.dst_values.len() == l0 + l1);
    let j: usize = kani::any();
    if j < l0 { assert!(f.dst_values[j] == bytes[offs[v[0]] as usize + j]); }
    if j < l1 { assert!(f.dst_values[l0 + j] == bytes[offs[v[1]] as usize + j]); }
    kani::cover!(l0 == 2 && l1 == 3);
    kani::cover!(l0 == 0 && l1 > 0 && v[0] == 1);
    std::mem::forget(f);
    std::mem::forget(a);
}

// ------------------------------------------------------------------------------------------------
// layer 2: typed array wrappers (cores + validity + constructor), still with a materialised strategy
// ------------------------------------------------------------------------------------------------

// Contract (C03 + C01): filter_boolean(array, predicate) with strategy Indices(v), |v| = K ascending
// positions < N, on a BooleanArray of N rows (values at bit offset 6, optional validity at bit offset 1,
// all bits symbolic): the result is a well-formed BooleanArray of exactly K rows; row k is null <=> source
// row v[k] is null, and otherwise has the value of source row v[k]; exact null count.
macro_rules! filter_boolean_indices {
    ($name:ident, $n:expr, $k:expr, $nulls:expr) => {
        #[kani::proof]
        #[kani::unwind(10)]
        #[kani::stub(alloc::fmt::format, stub_format)]
        fn $name() {
            const N: usize = $n;
            const K: usize = $k;
            let vb: [u8; 2] = kani::any();
            let bm: [u8; 2] = kani::any();
            let a = mk_pred(&vb, 6, N, if $nulls { Some((&bm[..], 1)) } else { None });
            let v = any_positions::<K>(N);
            let fp = materialised(N, K, IterationStrategy::Indices(v.to_vec()));
            let out = filter_boolean(&a, &fp);
            assert!(out.len() == K);
            let mut z = 0;
            let mut k = 0;
            while k < K {
                let null = $nulls && !bit(&bm, 1 + v[k]);
                assert!(out.is_null(k) == null);
                if null { z += 1 } else { assert!(out.value(k) == bit(&vb, 6 + v[k])); }
                k += 1;
            }
            assert!(out.null_count() == z);
            if let Some(n) = out.nulls() { assert!(n.len() == K); }
            kani::cover!(!$nulls || (z > 0 && z < K));
            kani::cover!(z == 0 && out.value(0) && !out.value(K - 1));
            std::mem::forget(out);
            std::mem::forget(fp);
            std::mem::forget(a);
        }
    };
}
// @unit name=filter_boolean_indices_n4_k2_nulls props=C03,C01 kind=bounded bound=rows=4_selected=2_strategy=Indices_with_validity fns=filter_boolean,filter_bits,FilterPredicate::filter_nulls timeout=900 mem=8 tier=quick
filter_boolean_indices!(filter_boolean_indices_n4_k2_nulls, 4, 2, true);
// @unit name=filter_boolean_indices_n4_k2 props=C03,C01 kind=bounded bound=rows=4_selected=2_strategy=Indices_no_validity fns=filter_boolean,filter_bits timeout=900 mem=8 tier=quick
filter_boolean_indices!(filter_boolean_indices_n4_k2, 4, 2, false);

// Contract (C03 + C01, single attempt): filter_primitive::<Int32Type>(array, predicate) with strategy
// Indices(v): K rows, row k == source row v[k] (value on valid rows, null otherwise), exact null count.
// The wrapper ends in PrimitiveArray::new (= try_new().unwrap()), whose unwrap path alone was measured at
// > 600 s in arrow-array (see primitive_array.rs), so this is expected not to fit.
// @unit name=filter_primitive_indices_n3_k2 props=C03,C01 kind=bounded bound=rows=3_selected=2_strategy=Indices_with_validity fns=filter_primitive,filter_native,FilterPredicate::filter_nulls timeout=900 mem=10 tier=thorough note=not_confirmed_out_of_memory_measured
#[kani::proof]
#[kani::unwind(10)]
#[kani::stub(alloc::fmt::format, stub_format)]
fn filter_primitive_indices_n3_k2() {
    const N: usize = 3;
    const K: usize = 2;
    let vals: [i32; N] = kani::any();
    let bm: [u8; 1] = kani::any();
    let a = unsafe {
        PrimitiveArray::<arrow_array::types::Int32Type>::new_unchecked(
            ScalarBuffer::new(Buffer::from_slice_ref(&vals), 0, N),
            Some(NullBuffer::new(BooleanBuffer::new(Buffer::from_slice_ref(&bm), 2, N))),
        )
    };
    let v = any_positions::<K>(N);
    let fp = materialised(N, K, IterationStrategy::Indices(v.to_vec()));
    let out = filter_primitive(&a, &fp);
    assert!(out.len() == K);
    let mut k = 0;
    while k < K {
        let null = !bit(&bm, 2 + v[k]);
        assert!(out.is_null(k) == null);
        if !null { assert!(out.value(k) == vals[v[k]]); }
        k += 1;
    }
    kani::cover!(out.null_count() == 1);
    std::mem::forget(out);
    std::mem::forget(fp);
    std::mem::forget(a);
}

// Contract (C03 + C01): filter_bytes::<BinaryType>(array, predicate) with strategy Indices(v), |v| = 2
// ascending positions < 3, on a Binary array of 3 rows (4 symbolic monotone offsets into 6 symbolic bytes,
// optional validity at bit offset 3): the result is a well-formed Binary array of 2 rows — offsets start at
// 0, are monotone, end at values.len() == sum of the selected lengths — whose row k has exactly the bytes of
// source row v[k] and is null <=> source row v[k] is null; exact null count.
macro_rules! filter_bytes_indices {
    ($name:ident, $nulls:expr) => {
        #[kani::proof]
        #[kani::unwind(9)]
        #[kani::stub(alloc::fmt::format, stub_format)]
        fn $name() {
            let offs: [i32; 4] = kani::any();
            kani::assume(offs[0] >= 0 && offs[0] <= offs[1] && offs[1] <= offs[2] && offs[2] <= offs[3] && offs[3] <= 6);
            let bytes: [u8; 6] = kani::any();
            let bm: [u8; 1] = kani::any();
            let ob = unsafe { OffsetBuffer::new_unchecked(ScalarBuffer::new(Buffer::from_slice_ref(&offs), 0, 4)) };
            let nulls = if $nulls { Some(NullBuffer::new(BooleanBuffer::new(Buffer::from_slice_ref(&bm), 3, 3))) } else { None };
            let a = unsafe { GenericByteArray::<BinaryType>::new_unchecked(ob, Buffer::from_slice_ref(&bytes), nulls) };
            let v = any_positions::<2>(3);
            let fp = materialised(3, 2, IterationStrategy::Indices(v.to_vec()));
            let out = filter_bytes(&a, &fp);
            assert!(out.len() == 2);
            let o = out.value_offsets();
            assert!(o.len() == 3 && o[0] == 0 && o[0] <= o[1] && o[1] <= o[2]);
            assert!(o[2] as usize == out.value_data().len());
            let mut z = 0;
            let mut k = 0;
            while k < 2 {
                let (sa, sb) = (offs[v[k]] as usize, offs[v[k] + 1] as usize);
                let val = out.value(k);
                assert!(val.len() == sb - sa);
                let j: usize = kani::any();
                if j < sb - sa { assert!(val[j] == bytes[sa + j]); }
                let null = $nulls && !bit(&bm, 3 + v[k]);
                assert!(out.is_null(k) == null);
                if null { z += 1 }
                k += 1;
            }
            assert!(out.null_count() == z);
            kani::cover!(o[1] == 2 && o[2] == 5);
            kani::cover!(!$nulls || z == 1);
            std::mem::forget(out);
            std::mem::forget(fp);
            std::mem::forget(a);
        }
    };
}
// @unit name=filter_bytes_indices_n3_k2 props=C03,C01 kind=bounded bound=rows=3_value_bytes<=6_selected=2_strategy=Indices_no_validity fns=filter_bytes,FilterBytes::extend_offsets_idx,FilterBytes::extend_idx timeout=900 mem=8 tier=quick
filter_bytes_indices!(filter_bytes_indices_n3_k2, false);
// @unit name=filter_bytes_indices_n3_k2_nulls props=C03,C01 kind=bounded bound=rows=3_value_bytes<=6_selected=2_strategy=Indices_with_validity fns=filter_bytes,FilterBytes::extend_offsets_idx,FilterBytes::extend_idx,FilterPredicate::filter_nulls timeout=900 mem=8 tier=thorough
filter_bytes_indices!(filter_bytes_indices_n3_k2_nulls, true);

// Contract (C03): FilterBytes::{extend_offsets_slices, extend_slices} — the core of filter_bytes for the
// Slices strategy — with the concrete runs [0,1) and [2,4) over a Binary array of 4 rows (5 symbolic
// monotone offsets into 6 symbolic bytes): dst_offsets == prefix sums of the lengths of rows 0, 2, 3 and
// dst_values == value(0) ++ value(2) ++ value(3).
// @unit name=filter_bytes_slices_n4_runs_0_1_2_4 props=C03 kind=bounded bound=rows=4_value_bytes<=6_runs=[0,1)+[2,4)_strategy=Slices fns=FilterBytes::extend_offsets_slices,FilterBytes::extend_slices timeout=900 mem=8 tier=quick
#[kani::proof]
#[kani::unwind(9)]
#[kani::stub(alloc::fmt::format, stub_format)]
fn filter_bytes_slices_n4_runs_0_1_2_4() {
    let offs: [i32; 5] = kani::any();
    kani::assume(offs[0] >= 0 && offs[0] <= offs[1] && offs[1] <= offs[2] && offs[2] <= offs[3] && offs[3] <= offs[4] && offs[4] <= 6);
    let bytes: [u8; 6] = kani::any();
    let ob = unsafe { OffsetBuffer::new_unchecked(ScalarBuffer::new(Buffer::from_slice_ref(&offs), 0, 5)) };
    let a = unsafe { GenericByteArray::<BinaryType>::new_unchecked(ob, Buffer::from_slice_ref(&bytes), None) };
    let runs = [(0usize, 1usize), (2, 4)];
    let mut f = FilterBytes::new(3, &a);
    f.extend_offsets_slices(runs.iter().copied(), 3);
    f.extend_slices(runs.iter().copied());
    let l0 = (offs[1] - offs[0]) as usize;
    let l2 = (offs[3] - offs[2]) as usize;
    let l3 = (offs[4] - offs[3]) as usize;
    assert!(f.dst_offsets.len() == 4);
    assert!(f.dst_offsets[0] == 0 && f.dst_offsets[1] as usize == l0 && f.dst_offsets[2] as usize == l0 + l2 && f.dst_offsets[3] as usize == l0 + l2 + l3);
    assert!(f.dst_values.len() == l0 + l2 + l3);
    let j: usize = kani::any();
    if j < l0 { assert!(f.dst_values[j] == bytes[offs[0] as usize + j]); }
    if j < l2 + l3 { assert!(f.dst_values[l0 + j] == bytes[offs[2] as usize + j]); }
    kani::cover!(l0 == 1 && l2 == 2 && l3 == 1 && offs[2] > offs[1]);
    std::mem::forget(f);
    std::mem::forget(a);
}
