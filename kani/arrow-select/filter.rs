// Kani contract harnesses for /repo/arrow-select/src/filter.rs (child module: sees private items via super::)
