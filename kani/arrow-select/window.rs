// Kani contract harnesses for /repo/arrow-select/src/window.rs (child module: sees private items via super::)
