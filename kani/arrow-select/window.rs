// Kani contract harnesses for /repo/arrow-select/src/window.rs (child module: sees private items via super::)
use super::*;
#[path = "/verif/kani/support/spec.rs"]
mod spec;
use spec::*;
use arrow_array::types::Int32Type;
use arrow_array::PrimitiveArray;
use arrow_buffer::{Buffer, ScalarBuffer};

// Contract (C03, single attempt): shift(array, k) on an Int32 array of 3 rows (no nulls), k = +1:
// output row i == input row i-1 for i >= 1 and null for i == 0. shift has no typed core: it is
// `&dyn Array -> ArrayRef` built from new_null_array + slice + concat (all dyn / ArrayData level).
// @unit name=shift_i32_n3_plus1 props=C03 kind=bounded bound=rows=3_offset=+1 fns=shift timeout=900 mem=10 tier=thorough note=not_confirmed_not_run
#[kani::proof]
#[kani::unwind(8)]
#[kani::stub(alloc::fmt::format, stub_format)]
fn shift_i32_n3_plus1() {
    let store: [i32; 3] = kani::any();
    let a = unsafe { PrimitiveArray::<Int32Type>::new_unchecked(ScalarBuffer::new(Buffer::from_slice_ref(&store), 0, 3), None) };
    let r = shift(&a, 1);
    match &r {
        Ok(out) => {
            let out = out.as_any().downcast_ref::<PrimitiveArray<Int32Type>>().unwrap();
            assert!(out.len() == 3);
            assert!(out.is_null(0));
            assert!(out.is_valid(1) && out.value(1) == store[0]);
            assert!(out.is_valid(2) && out.value(2) == store[1]);
        }
        Err(_) => assert!(false),
    }
    kani::cover!(true);
    std::mem::forget(r);
    std::mem::forget(a);
}
