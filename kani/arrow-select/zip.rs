// Kani contract harnesses for /repo/arrow-select/src/zip.rs (child module: sees private items via super::)
use super::*;
#[path = "/verif/kani/support/spec.rs"]
mod spec;
use spec::*;
use arrow_array::types::Int32Type;

fn mk_mask(vb: &[u8], voff: usize, n: usize, nulls: Option<(&[u8], usize)>) -> BooleanArray {
    let values = BooleanBuffer::new(Buffer::from_slice_ref(vb), voff, n);
    let nulls = nulls.map(|(bm, boff)| NullBuffer::new(BooleanBuffer::new(Buffer::from_slice_ref(bm), boff, n)));
    BooleanArray::new(values, nulls)
}

// Contract (C03): maybe_prep_null_mask_filter(mask) — the mask normalisation every zip path starts
// with — returns N bits with bit i set <=> mask row i is true and valid ("null mask = falsy side"), for a
// mask of N rows at bit offsets (6,1); validity presence is concrete per instance (with a symbolic
// presence the result buffer is one of two allocations and every later read goes through a symbolic pointer:
// measured > 400 cpu s at 4 rows).
macro_rules! zip_mask {
    ($name:ident, $n:expr, $nulls:expr) => {
        #[kani::proof]
        #[kani::unwind(20)]
        #[kani::stub(alloc::fmt::format, stub_format)]
        fn $name() {
            const N: usize = $n;
            let vb: [u8; 3] = kani::any();
            let bm: [u8; 3] = kani::any();
            let (voff, boff): (usize, usize) = (6, 1);
            let with_nulls: bool = $nulls;
            let mask = mk_mask(&vb, voff, N, if with_nulls { Some((&bm[..], boff)) } else { None });
            let r = maybe_prep_null_mask_filter(&mask);
            assert!(r.len() == N);
            let mut c = 0;
            let mut i = 0;
            while i < N {
                let want = bit(&vb, voff + i) && (!with_nulls || bit(&bm, boff + i));
                assert!(r.value(i) == want);
                if want { c += 1 }
                i += 1;
            }
            assert!(r.count_set_bits() == c);
            kani::cover!(!with_nulls || (mask.null_count() > 0 && c > 0));
            kani::cover!(c < N && c > 0);
            std::mem::forget(mask);
        }
    };
}
// @unit name=zip_mask_n4 props=C03 kind=bounded bound=rows=4_no_validity_bit_offset=6 fns=maybe_prep_null_mask_filter tier=thorough
zip_mask!(zip_mask_n4, 4, false);
// @unit name=zip_mask_n4_nulls props=C03 kind=bounded bound=rows=4_with_validity_bit_offsets=(6,1) fns=maybe_prep_null_mask_filter tier=quick
zip_mask!(zip_mask_n4_nulls, 4, true);
// @unit name=zip_mask_n12_nulls props=C03 kind=bounded bound=rows=12_with_validity_bit_offsets=(6,1) fns=maybe_prep_null_mask_filter tier=quick
zip_mask!(zip_mask_n12_nulls, 12, true);

// Contract (C03, single attempt): scalar-scalar zip on Int32 — PrimitiveScalarImpl::create_output(mask):
// row i == truthy if mask row i is true and valid, else falsy; a None side yields a null row. 2 rows.
// The result is an Arc<dyn Array>; it is inspected through as_any().downcast_ref (dyn dispatch).
// @unit name=zip_scalar_i32_n2 props=C03 kind=bounded bound=rows=2_both_scalars_optional fns=PrimitiveScalarImpl::create_output timeout=900 mem=10 tier=thorough note=not_confirmed_not_run
#[kani::proof]
#[kani::unwind(8)]
#[kani::stub(alloc::fmt::format, stub_format)]
fn zip_scalar_i32_n2() {
    const N: usize = 2;
    let vb: [u8; 1] = kani::any();
    let bm: [u8; 1] = kani::any();
    let with_nulls: bool = kani::any();
    let mask = mk_mask(&vb, 0, N, if with_nulls { Some((&bm[..], 0)) } else { None });
    let truthy: Option<i32> = kani::any();
    let falsy: Option<i32> = kani::any();
    let z = PrimitiveScalarImpl::<Int32Type> { data_type: DataType::Int32, truthy, falsy };
    let r = z.create_output(&mask);
    match &r {
        Ok(a) => {
            let a = a.as_any().downcast_ref::<PrimitiveArray<Int32Type>>().unwrap();
            assert!(a.len() == N);
            let mut i = 0;
            while i < N {
                let sel = bit(&vb, i) && (!with_nulls || bit(&bm, i));
                match if sel { truthy } else { falsy } {
                    Some(x) => { assert!(a.is_valid(i)); assert!(a.value(i) == x); }
                    None => assert!(a.is_null(i)),
                }
                i += 1;
            }
        }
        Err(_) => assert!(false),
    }
    kani::cover!(truthy.is_some() && falsy.is_none());
    kani::cover!(truthy.is_none() && falsy.is_none());
    std::mem::forget(r);
    std::mem::forget(z);
    std::mem::forget(mask);
}
