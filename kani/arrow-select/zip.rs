// Kani contract harnesses for /repo/arrow-select/src/zip.rs (child module: sees private items via super::)
