// Kani contract harnesses for /repo/arrow-select/src/nullif.rs (child module: sees private items via super::)
use super::*;
#[path = "/verif/kani/support/spec.rs"]
mod spec;
use spec::*;
use arrow_array::types::Int32Type;
use arrow_array::PrimitiveArray;
use arrow_buffer::{Buffer, ScalarBuffer};

// Contract (C03, single attempt): nullif(left, right) on an Int32 array of 3 rows: output row i has the
// value of left row i and is valid <=> left row i is valid /\ not (right row i is true /\ valid)
// (the word formula validity & !(mask & mask_valid)); exact null count. There is no typed core: the
// formula lives in closures inside the `&dyn Array -> ArrayRef` entry point (to_data / make_array), so
// the whole kernel has to run.
// @unit name=nullif_i32_n3 props=C03 kind=bounded bound=rows=3_both_validities_present fns=nullif timeout=900 mem=10 tier=thorough note=not_confirmed_not_run
#[kani::proof]
#[kani::unwind(8)]
#[kani::stub(alloc::fmt::format, stub_format)]
fn nullif_i32_n3() {
    const N: usize = 3;
    let store: [i32; N] = kani::any();
    let lv: [u8; 1] = kani::any();
    let rb: [u8; 1] = kani::any();
    let rv: [u8; 1] = kani::any();
    let left = unsafe {
        PrimitiveArray::<Int32Type>::new_unchecked(
            ScalarBuffer::new(Buffer::from_slice_ref(&store), 0, N),
            Some(NullBuffer::new(BooleanBuffer::new(Buffer::from_slice_ref(&lv), 0, N))),
        )
    };
    let right = BooleanArray::new(
        BooleanBuffer::new(Buffer::from_slice_ref(&rb), 0, N),
        Some(NullBuffer::new(BooleanBuffer::new(Buffer::from_slice_ref(&rv), 0, N))),
    );
    let r = nullif(&left, &right);
    match &r {
        Ok(out) => {
            let out = out.as_any().downcast_ref::<PrimitiveArray<Int32Type>>().unwrap();
            assert!(out.len() == N);
            let mut z = 0;
            let mut i = 0;
            while i < N {
                let valid = bit(&lv, i) && !(bit(&rb, i) && bit(&rv, i));
                assert!(out.is_valid(i) == valid);
                if valid { assert!(out.value(i) == store[i]); } else { z += 1; }
                i += 1;
            }
            assert!(out.null_count() == z);
        }
        Err(_) => assert!(false),
    }
    kani::cover!(bit(&lv, 0) && bit(&rb, 0) && bit(&rv, 0));
    std::mem::forget(r);
    std::mem::forget(left);
    std::mem::forget(right);
}
