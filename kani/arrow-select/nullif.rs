// Kani contract harnesses for /repo/arrow-select/src/nullif.rs (child module: sees private items via super::)
