// Kani contract harnesses for /repo/arrow-select/src/interleave.rs (child module: sees private items via super::)
