// Kani contract harnesses for /repo/arrow-select/src/interleave.rs (child module: sees private items via super::)
use super::*;
#[path = "/verif/kani/support/spec.rs"]
mod spec;
use spec::*;
use arrow_buffer::{Buffer, ScalarBuffer};

fn i32_array(store: &[i32; 2], bm: Option<&[u8; 1]>) -> PrimitiveArray<Int32Type> {
    let nulls = bm.map(|bm| NullBuffer::new(BooleanBuffer::new(Buffer::from_slice_ref(bm), 0, 2)));
    unsafe { PrimitiveArray::<Int32Type>::new_unchecked(ScalarBuffer::new(Buffer::from_slice_ref(store), 0, 2), nulls) }
}

// Contract (C03, layer 1, single attempt): interleave_primitive::<Int32Type> over 2 arrays x 2 rows and 2
// picks (array, row) (symbolic, in range): output row k == values[pick_k.0][pick_k.1], null iff that
// source row is null. The typed core takes &[&dyn Array] and returns ArrayRef, so the harness has to go
// through dyn dispatch (as_any / downcast) on both sides.
// @unit name=interleave_i32_2x2 props=C03 kind=bounded bound=arrays=2_rows=2_picks=2_validity_on_first_array_only fns=interleave_primitive,Interleave::new timeout=900 mem=10 tier=thorough note=not_confirmed_not_run
#[kani::proof]
#[kani::unwind(8)]
#[kani::stub(alloc::fmt::format, stub_format)]
fn interleave_i32_2x2() {
    let s0: [i32; 2] = kani::any();
    let s1: [i32; 2] = kani::any();
    let bm: [u8; 1] = kani::any();
    let a0 = i32_array(&s0, Some(&bm));
    let a1 = i32_array(&s1, None);
    let picks: [(usize, usize); 2] = kani::any();
    kani::assume(picks[0].0 < 2 && picks[0].1 < 2 && picks[1].0 < 2 && picks[1].1 < 2);
    let dt = DataType::Int32;
    let r = interleave_primitive::<Int32Type>(&[&a0, &a1], &picks, &dt);
    match &r {
        Ok(out) => {
            let out = out.as_any().downcast_ref::<PrimitiveArray<Int32Type>>().unwrap();
            assert!(out.len() == 2);
            let mut k = 0;
            while k < 2 {
                let (a, i) = picks[k];
                let null = a == 0 && !bit(&bm, i);
                assert!(out.is_null(k) == null);
                if !null { assert!(out.value(k) == if a == 0 { s0[i] } else { s1[i] }); }
                k += 1;
            }
        }
        Err(_) => assert!(false),
    }
    kani::cover!(picks[0] == (1, 1) && picks[1] == (0, 0));
    std::mem::forget(r);
    std::mem::forget(dt);
    std::mem::forget(a0);
    std::mem::forget(a1);
}
