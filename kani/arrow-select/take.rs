// Kani contract harnesses for /repo/arrow-select/src/take.rs (child module: sees private items via super::)
use super::*;
#[path = "/verif/kani/support/spec.rs"]
mod spec;
use spec::*;
use arrow_array::types::{Int8Type, UInt32Type};
use arrow_buffer::Buffer;

fn mk_nulls(bm: &[u8], boff: usize, n: usize) -> NullBuffer {
    NullBuffer::new(BooleanBuffer::new(Buffer::from_slice_ref(bm), boff, n))
}
fn idx_i8<const K: usize>(idx: &[i8; K], nulls: Option<NullBuffer>) -> PrimitiveArray<Int8Type> {
    unsafe { PrimitiveArray::<Int8Type>::new_unchecked(ScalarBuffer::new(Buffer::from_slice_ref(idx), 0, K), nulls) }
}
fn idx_u32<const K: usize>(idx: &[u32; K], nulls: Option<NullBuffer>) -> PrimitiveArray<UInt32Type> {
    unsafe { PrimitiveArray::<UInt32Type>::new_unchecked(ScalarBuffer::new(Buffer::from_slice_ref(idx), 0, K), nulls) }
}

// ------------------------------------------------------------------------------------------------
// check_bounds
// ------------------------------------------------------------------------------------------------

// Contract (C03): check_bounds(len, indices) for UInt32 indices (K symbolic values, optional validity at
// bit offset 3) and every len:  Ok <=> every *valid* index is < len  (null slots are ignored,
// whatever lies under them).
macro_rules! check_bounds_u32 {
    ($name:ident, $k:expr, $nulls:expr) => {
        #[kani::proof]
        #[kani::unwind(8)]
        #[kani::stub(alloc::fmt::format, stub_format)]
        fn $name() {
            const K: usize = $k;
            let idx: [u32; K] = kani::any();
            let bm: [u8; 2] = kani::any();
            let boff: usize = 3;
            let len: usize = kani::any();
            let nulls = if $nulls { Some(mk_nulls(&bm, boff, K)) } else { None };
            let indices = idx_u32(&idx, nulls);
            let r = check_bounds(len, &indices);
            let mut all_ok = true;
            let mut i = 0;
            while i < K {
                let valid = !$nulls || bit(&bm, boff + i);
                if valid && idx[i] as u128 >= len as u128 { all_ok = false; }
                i += 1;
            }
            assert!(r.is_ok() == all_ok);
            kani::cover!(r.is_ok() && len > 0);
            kani::cover!(r.is_err());
            kani::cover!(!$nulls || (r.is_ok() && idx[0] as u128 >= len as u128));   // an out-of-range value under a null is accepted
            kani::cover!(len > u32::MAX as usize);
            std::mem::forget(r);
            std::mem::forget(indices);
        }
    };
}
// @unit name=check_bounds_u32_k3 props=C03 kind=bounded bound=indices=3_no_validity_len_symbolic fns=check_bounds tier=thorough note=not_confirmed_at_checkpoint
check_bounds_u32!(check_bounds_u32_k3, 3, false);
// @unit name=check_bounds_u32_k3_nulls props=C03 kind=bounded bound=indices=3_validity_at_bit_offset=3_len_symbolic fns=check_bounds tier=thorough note=not_confirmed_at_checkpoint
check_bounds_u32!(check_bounds_u32_k3_nulls, 3, true);

// Contract (C03): check_bounds for *signed* Int8 indices. Upper bound, both directions on non-negative
// valid indices:  Ok => every valid index i satisfies i < len;  and if every valid index is in [0, len)
// then Ok. (What happens for negative valid indices is the subject of check_bounds_i8_negative.)
macro_rules! check_bounds_i8 {
    ($name:ident, $k:expr, $nulls:expr) => {
        #[kani::proof]
        #[kani::unwind(8)]
        #[kani::stub(alloc::fmt::format, stub_format)]
        fn $name() {
            const K: usize = $k;
            let idx: [i8; K] = kani::any();
            let bm: [u8; 2] = kani::any();
            let boff: usize = 3;
            let len: usize = kani::any();
            let nulls = if $nulls { Some(mk_nulls(&bm, boff, K)) } else { None };
            let indices = idx_i8(&idx, nulls);
            let r = check_bounds(len, &indices);
            let mut none_above = true;
            let mut all_in = true;
            let mut i = 0;
            while i < K {
                let valid = !$nulls || bit(&bm, boff + i);
                if valid && idx[i] as i128 >= len as i128 { none_above = false; }
                if valid && (idx[i] < 0 || idx[i] as i128 >= len as i128) { all_in = false; }
                i += 1;
            }
            if r.is_ok() { assert!(none_above); }
            if all_in { assert!(r.is_ok()); }
            kani::cover!(r.is_ok() && len > 0 && len < 100);
            kani::cover!(r.is_err());
            kani::cover!(len > 127);
            std::mem::forget(r);
            std::mem::forget(indices);
        }
    };
}
// @unit name=check_bounds_i8_k3 props=C03 kind=bounded bound=indices=3_no_validity_len_symbolic fns=check_bounds tier=thorough note=not_confirmed_at_checkpoint
check_bounds_i8!(check_bounds_i8_k3, 3, false);
// @unit name=check_bounds_i8_k3_nulls props=C03 kind=bounded bound=indices=3_validity_at_bit_offset=3_len_symbolic fns=check_bounds tier=thorough note=not_confirmed_at_checkpoint
check_bounds_i8!(check_bounds_i8_k3_nulls, 3, true);

// ------------------------------------------------------------------------------------------------
// take_native / take_nulls / take_bits  (grid: V values x K indices, validity presence per harness)
// ------------------------------------------------------------------------------------------------

// Contract (C03): take_native::<i32, Int8Type>(values[V], indices[K]) without an index validity bitmap:
// either panics on a checked index (may-reject) or returns K elements with out[k] == values[idx[k]]
// and every index in [0, V) — an out-of-range or negative index never produces a value (no unchecked
// read).
macro_rules! take_native_nonull {
    ($name:ident, $it:ty, $mk:ident, $v:expr, $k:expr) => {
        #[kani::proof]
        #[kani::unwind(8)]
        #[kani::stub(alloc::fmt::format, stub_format)]
        fn $name() {
            const V: usize = $v;
            const K: usize = $k;
            let vals: [i32; V] = kani::any();
            let idx: [$it; K] = kani::any();
            let indices = $mk(&idx, None);
            let out = take_native::<i32, _>(&vals, &indices);
            assert!(out.len() == K);
            let mut k = 0;
            while k < K {
                assert!(idx[k] as i128 >= 0 && (idx[k] as i128) < V as i128);
                assert!(out[k] == vals[idx[k] as usize]);
                k += 1;
            }
            kani::cover!(idx[0] as usize == V - 1 && idx[K - 1] == 0);
            std::mem::forget(indices);
        }
    };
}
// @unit name=take_native_i8_2x2 props=C03 kind=bounded bound=values=2_indices=2_no_index_validity mayreject=1 fns=take_native tier=thorough timeout=900 mem=8 note=not_confirmed_at_checkpoint
take_native_nonull!(take_native_i8_2x2, i8, idx_i8, 2, 2);
// @unit name=take_native_u32_3x2 props=C03 kind=bounded bound=values=3_indices=2_no_index_validity mayreject=1 fns=take_native tier=thorough timeout=900 mem=8 note=not_confirmed_at_checkpoint
take_native_nonull!(take_native_u32_3x2, u32, idx_u32, 3, 2);

// Contract (C03): take_native with an index validity bitmap (symbolic bits at bit offset 3),
// under the precondition check_bounds establishes — every *valid* index is in [0, V) — and arbitrary
// garbage (including out-of-range and negative values) under the null slots: it never panics, returns K
// elements, and out[k] == values[idx[k]] for every valid k. (Not a may-reject harness: a panic on a
// null slot would be a violation — "null index => null row", not an error.)
macro_rules! take_native_nulls {
    ($name:ident, $it:ty, $mk:ident, $v:expr, $k:expr) => {
        #[kani::proof]
        #[kani::unwind(8)]
        #[kani::stub(alloc::fmt::format, stub_format)]
        fn $name() {
            const V: usize = $v;
            const K: usize = $k;
            let vals: [i32; V] = kani::any();
            let idx: [$it; K] = kani::any();
            let bm: [u8; 2] = kani::any();
            let boff: usize = 3;
            let mut k = 0;
            while k < K {
                if bit(&bm, boff + k) { kani::assume(idx[k] as i128 >= 0 && (idx[k] as i128) < V as i128); }
                k += 1;
            }
            let indices = $mk(&idx, Some(mk_nulls(&bm, boff, K)));
            let out = take_native::<i32, _>(&vals, &indices);
            assert!(out.len() == K);
            k = 0;
            while k < K {
                if bit(&bm, boff + k) { assert!(out[k] == vals[idx[k] as usize]); }
                k += 1;
            }
            kani::cover!(!bit(&bm, boff) && (idx[0] as i128) >= V as i128 && bit(&bm, boff + 1));   // OOB garbage under a null
            kani::cover!(!bit(&bm, boff + 1) && (idx[1] as i128) < V as i128 && bit(&bm, boff));
            kani::cover!(bit(&bm, boff) && bit(&bm, boff + K - 1));
            std::mem::forget(indices);
        }
    };
}
// @unit name=take_native_i8_2x2_nulls props=C03 kind=bounded bound=values=2_indices=2_index_validity_present fns=take_native tier=thorough timeout=900 mem=8 note=not_confirmed_at_checkpoint
take_native_nulls!(take_native_i8_2x2_nulls, i8, idx_i8, 2, 2);
// @unit name=take_native_u32_3x2_nulls props=C03 kind=bounded bound=values=3_indices=2_index_validity_present fns=take_native tier=thorough timeout=900 mem=8 note=not_confirmed_at_checkpoint
take_native_nulls!(take_native_u32_3x2_nulls, u32, idx_u32, 3, 2);

// Contract (C03): take_native with an index validity bitmap and an arbitrary (possibly out-of-range)
// *valid* index: either a checked panic (may-reject) or the index was in range — never an unchecked read
// (Kani's memory-safety checks are active on every path).
// @unit name=take_native_i8_2x2_nulls_oob props=C03 kind=bounded bound=values=2_indices=2_index_validity_present mayreject=1 fns=take_native tier=thorough timeout=900 mem=8 note=not_confirmed_at_checkpoint
#[kani::proof]
#[kani::unwind(8)]
#[kani::stub(alloc::fmt::format, stub_format)]
fn take_native_i8_2x2_nulls_oob() {
    let vals: [i32; 2] = kani::any();
    let idx: [i8; 2] = kani::any();
    let bm: [u8; 1] = kani::any();
    let indices = idx_i8(&idx, Some(mk_nulls(&bm, 0, 2)));
    let out = take_native::<i32, _>(&vals, &indices);
    assert!(out.len() == 2);
    let mut k = 0;
    while k < 2 {
        // the all-valid bitmap takes the no-null path; either way a valid index that got here is in range
        if bit(&bm, k) { assert!(idx[k] >= 0 && idx[k] < 2 && out[k] == vals[idx[k] as usize]); }
        k += 1;
    }
    kani::cover!(bit(&bm, 0) && !bit(&bm, 1));
    std::mem::forget(indices);
}

// Contract (C03): take_nulls(values_validity, indices): output row k is valid <=> index k is valid /\
// the values row idx[k] is valid  ("null index => null row"; a null source row stays null). None means
// all K rows valid. In-range valid indices are a precondition (established by check_bounds / take_native).
macro_rules! take_nulls_unit {
    ($name:ident, $v:expr, $k:expr, $vnulls:expr, $inulls:expr) => {
        #[kani::proof]
        #[kani::unwind(8)]
        #[kani::stub(alloc::fmt::format, stub_format)]
        fn $name() {
            const V: usize = $v;
            const K: usize = $k;
            let idx: [i8; K] = kani::any();
            let vbm: [u8; 2] = kani::any();
            let ibm: [u8; 2] = kani::any();
            let (voff, ioff): (usize, usize) = (5, 2);
            let mut k = 0;
            while k < K {
                let iv = !$inulls || bit(&ibm, ioff + k);
                if iv { kani::assume(idx[k] >= 0 && (idx[k] as usize) < V); }
                k += 1;
            }
            let vn = if $vnulls { Some(mk_nulls(&vbm, voff, V)) } else { None };
            let indices = idx_i8(&idx, if $inulls { Some(mk_nulls(&ibm, ioff, K)) } else { None });
            let out = take_nulls(vn.as_ref(), &indices);
            k = 0;
            while k < K {
                let iv = !$inulls || bit(&ibm, ioff + k);
                let expect = iv && (!$vnulls || bit(&vbm, voff + idx[k] as usize));
                match &out {
                    Some(o) => { assert!(o.len() == K); assert!(o.is_valid(k) == expect); }
                    None => assert!(expect),
                }
                k += 1;
            }
            if let Some(o) = &out {
                let mut z = 0;
                k = 0;
                while k < K {
                    if !o.is_valid(k) { z += 1 }
                    k += 1;
                }
                assert!(o.null_count() == z);
            }
            kani::cover!(out.is_some());
            kani::cover!($inulls || out.is_none());
            std::mem::forget(indices);
        }
    };
}
// @unit name=take_nulls_v3_k2_values_nulls props=C03 kind=bounded bound=values=3_indices=2_values_validity_only fns=take_nulls,take_bits tier=thorough timeout=900 mem=8 note=not_confirmed_at_checkpoint
take_nulls_unit!(take_nulls_v3_k2_values_nulls, 3, 2, true, false);
// @unit name=take_nulls_v3_k2_index_nulls props=C03 kind=bounded bound=values=3_indices=2_index_validity_only fns=take_nulls tier=thorough timeout=900 mem=8 note=not_confirmed_at_checkpoint
take_nulls_unit!(take_nulls_v3_k2_index_nulls, 3, 2, false, true);
// @unit name=take_nulls_v3_k2_both_nulls props=C03 kind=bounded bound=values=3_indices=2_both_validities fns=take_nulls,take_bits tier=thorough timeout=900 mem=8 note=not_confirmed_at_checkpoint
take_nulls_unit!(take_nulls_v3_k2_both_nulls, 3, 2, true, true);

// Contract (C03): take_bits(values_bits, indices): output has K bits and bit k == values bit idx[k] for
// every valid index k (values: V bits at bit offset 5). Without index validity: a valid
// out-of-range index is rejected by a checked panic (may-reject), never read. With index validity: under
// check_bounds' postcondition (valid indices in range, garbage under nulls) it never panics.
macro_rules! take_bits_unit {
    ($name:ident, $v:expr, $k:expr, $inulls:expr) => {
        #[kani::proof]
        #[kani::unwind(8)]
        #[kani::stub(alloc::fmt::format, stub_format)]
        fn $name() {
            const V: usize = $v;
            const K: usize = $k;
            let idx: [i8; K] = kani::any();
            let vb: [u8; 2] = kani::any();
            let ibm: [u8; 2] = kani::any();
            let (voff, ioff): (usize, usize) = (5, 2);
            let values = BooleanBuffer::new(Buffer::from_slice_ref(&vb), voff, V);
            if $inulls {
                // precondition from check_bounds: valid indices in range; garbage under null slots
                let mut k = 0;
                while k < K {
                    if bit(&ibm, ioff + k) { kani::assume(idx[k] >= 0 && (idx[k] as usize) < V); }
                    k += 1;
                }
            }
            let indices = idx_i8(&idx, if $inulls { Some(mk_nulls(&ibm, ioff, K)) } else { None });
            let out = take_bits(&values, &indices);
            assert!(out.len() == K);
            let mut k = 0;
            while k < K {
                if !$inulls || bit(&ibm, ioff + k) {
                    assert!(idx[k] >= 0 && (idx[k] as usize) < V);
                    assert!(out.value(k) == bit(&vb, voff + idx[k] as usize));
                }
                k += 1;
            }
            kani::cover!(out.value(0) && !out.value(K - 1));
            std::mem::forget(indices);
        }
    };
}
// @unit name=take_bits_v3_k2 props=C03 kind=bounded bound=values=3_bits_indices=2_no_index_validity mayreject=1 fns=take_bits tier=thorough timeout=900 mem=8 note=not_confirmed_at_checkpoint
take_bits_unit!(take_bits_v3_k2, 3, 2, false);
// @unit name=take_bits_v3_k2_nulls props=C03 kind=bounded bound=values=3_bits_indices=2_index_validity_present_valid_indices_in_range fns=take_bits tier=thorough timeout=900 mem=8 note=not_confirmed_at_checkpoint
take_bits_unit!(take_bits_v3_k2_nulls, 3, 2, true);
