// Kani contract harnesses for /repo/arrow-select/src/take.rs (child module: sees private items via super::)
