// Kani contract harnesses for /repo/arrow-select/src/take.rs (child module: sees private items via super::)
use super::*;
#[path = "/verif/kani/support/spec.rs"]
mod spec;
use spec::*;
use arrow_array::types::{Int8Type, UInt32Type};
use arrow_buffer::Buffer;

fn mk_nulls(bm: &[u8], boff: usize, n: usize) -> NullBuffer {
    NullBuffer::new(BooleanBuffer::new(Buffer::from_slice_ref(bm), boff, n))
}
fn idx_i8<const K: usize>(idx: &[i8; K], nulls: Option<NullBuffer>) -> PrimitiveArray<Int8Type> {
    unsafe { PrimitiveArray::<Int8Type>::new_unchecked(ScalarBuffer::new(Buffer::from_slice_ref(idx), 0, K), nulls) }
}
fn idx_u32<const K: usize>(idx: &[u32; K], nulls: Option<NullBuffer>) -> PrimitiveArray<UInt32Type> {
    unsafe { PrimitiveArray::<UInt32Type>::new_unchecked(ScalarBuffer::new(Buffer::from_slice_ref(idx), 0, K), nulls) }
}

// ------------------------------------------------------------------------------------------------
// check_bounds
// ------------------------------------------------------------------------------------------------

// Contract (C03): check_bounds(len, indices) for UInt32 indices (K symbolic values, optional validity at
// bit offset 3) and every len:  Ok <=> every *valid* index is < len  (null slots are ignored,
// whatever lies under them).
macro_rules! check_bounds_u32 {
    ($name:ident, $k:expr, $nulls:expr) => {
        #[kani::proof]
        #[kani::unwind(8)]
        #[kani::stub(alloc::fmt::format, stub_format)]
        fn $name() {
            const K: usize = $k;
            let idx: [u32; K] = kani::any();
            let bm: [u8; 2] = kani::any();
            let boff: usize = 3;
            let len: usize = kani::any();
            let nulls = if $nulls { Some(mk_nulls(&bm, boff, K)) } else { None };
            let indices = idx_u32(&idx, nulls);
            let r = check_bounds(len, &indices);
            let mut all_ok = true;
            let mut i = 0;
            while i < K {
                let valid = !$nulls || bit(&bm, boff + i);
                if valid && idx[i] as u128 >= len as u128 { all_ok = false; }
                i += 1;
            }
            assert!(r.is_ok() == all_ok);
            kani::cover!(r.is_ok() && len > 0);
            kani::cover!(r.is_err());
            kani::cover!(!$nulls || (r.is_ok() && idx[0] as u128 >= len as u128));   // an out-of-range value under a null is accepted
            kani::cover!(len > u32::MAX as usize);
            std::mem::forget(r);
            std::mem::forget(indices);
        }
    };
}
// @unit name=check_bounds_u32_k3 props=C03 kind=bounded bound=indices=3_no_validity_len_symbolic fns=check_bounds tier=quick
check_bounds_u32!(check_bounds_u32_k3, 3, false);
// @unit name=check_bounds_u32_k3_nulls props=C03 kind=bounded bound=indices=3_validity_at_bit_offset=3_len_symbolic fns=check_bounds tier=quick
check_bounds_u32!(check_bounds_u32_k3_nulls, 3, true);

// Contract (C03): check_bounds for *signed* Int8 indices. Upper bound, both directions on non-negative
// valid indices:  Ok => every valid index i satisfies i < len;  and if every valid index is in [0, len)
// then Ok. (What happens for negative valid indices is the subject of check_bounds_i8_negative.)
macro_rules! check_bounds_i8 {
    ($name:ident, $k:expr, $nulls:expr) => {
        #[kani::proof]
        #[kani::unwind(8)]
        #[kani::stub(alloc::fmt::format, stub_format)]
        fn $name() {
            const K: usize = $k;
            let idx: [i8; K] = kani::any();
            let bm: [u8; 2] = kani::any();
            let boff: usize = 3;
            let len: usize = kani::any();
            let nulls = if $nulls { Some(mk_nulls(&bm, boff, K)) } else { None };
            let indices = idx_i8(&idx, nulls);
            let r = check_bounds(len, &indices);
            let mut none_above = true;
            let mut all_in = true;
            let mut i = 0;
            while i < K {
                let valid = !$nulls || bit(&bm, boff + i);
                if valid && idx[i] as i128 >= len as i128 { none_above = false; }
                if valid && (idx[i] < 0 || idx[i] as i128 >= len as i128) { all_in = false; }
                i += 1;
            }
            if r.is_ok() { assert!(none_above); }
            if all_in { assert!(r.is_ok()); }
            kani::cover!(r.is_ok() && len > 0 && len < 100);
            kani::cover!(r.is_err());
            kani::cover!(len > 127);
            std::mem::forget(r);
            std::mem::forget(indices);
        }
    };
}
// @unit name=check_bounds_i8_k3 props=C03 kind=bounded bound=indices=3_no_validity_len_symbolic fns=check_bounds tier=quick
check_bounds_i8!(check_bounds_i8_k3, 3, false);
// @unit name=check_bounds_i8_k3_nulls props=C03 kind=bounded bound=indices=3_validity_at_bit_offset=3_len_symbolic fns=check_bounds tier=quick
check_bounds_i8!(check_bounds_i8_k3_nulls, 3, true);

// Contract (C03): the documented behaviour of check_bounds ("verifies that the non-null values of indices
// are all < len"; `take` "errors when an index is out of bounds and options is set to check bounds") for a
// *signed* index type, both directions:  Ok <=> every valid index is in [0, len).  Null slots are ignored.
// History: this contract failed on the tree as found (finding F5: the branch taken when the index array
// contains nulls only tested `index >= len`, and the early return for a `len` that does not fit the index
// type accepted everything, so a negative valid index was accepted and `take(.., Int8[-1, null],
// check_bounds=true)` panicked in take_native instead of returning Err; reproduced natively). It is fixed in
// /repo by 91aa63b; the unit passes on the fixed tree and reports VIOLATION on the pre-fix tree
// (34 cpu s, concrete input len = 2, indices = Int8[-1, null]).
// @unit name=check_bounds_i8_negative_finding props=C03 kind=bounded bound=indices=2_validity_present_len<=100 fns=check_bounds tier=quick
#[kani::proof]
#[kani::unwind(8)]
#[kani::stub(alloc::fmt::format, stub_format)]
fn check_bounds_i8_negative_finding() {
    let idx: [i8; 2] = kani::any();
    let bm: [u8; 1] = kani::any();
    let len: usize = kani::any();
    kani::assume(len <= 100);
    let indices = idx_i8(&idx, Some(mk_nulls(&bm, 0, 2)));
    let r = check_bounds(len, &indices);
    let mut all_in = true;
    let mut i = 0;
    while i < 2 {
        if bit(&bm, i) && (idx[i] < 0 || idx[i] as usize >= len) { all_in = false; }
        i += 1;
    }
    assert!(r.is_ok() == all_in);
    kani::cover!(r.is_ok());
    kani::cover!(r.is_err());
    std::mem::forget(r);
    std::mem::forget(indices);
}

// ------------------------------------------------------------------------------------------------
// take_native / take_nulls / take_bits  (grid: V values x K indices, validity presence per harness)
// ------------------------------------------------------------------------------------------------

// Contract (C03): take_native::<i32, Int8Type>(values[V], indices[K]) without an index validity bitmap:
// either panics on a checked index (may-reject) or returns K elements with out[k] == values[idx[k]]
// and every index in [0, V) — an out-of-range or negative index never produces a value (no unchecked
// read).
macro_rules! take_native_nonull {
    ($name:ident, $it:ty, $mk:ident, $v:expr, $k:expr) => {
        #[kani::proof]
        #[kani::unwind(8)]
        #[kani::stub(alloc::fmt::format, stub_format)]
        fn $name() {
            const V: usize = $v;
            const K: usize = $k;
            let vals: [i32; V] = kani::any();
            let idx: [$it; K] = kani::any();
            let indices = $mk(&idx, None);
            let out = take_native::<i32, _>(&vals, &indices);
            assert!(out.len() == K);
            let mut k = 0;
            while k < K {
                assert!(idx[k] as i128 >= 0 && (idx[k] as i128) < V as i128);
                assert!(out[k] == vals[idx[k] as usize]);
                k += 1;
            }
            kani::cover!(idx[0] as usize == V - 1 && idx[K - 1] == 0);
            std::mem::forget(indices);
        }
    };
}
// @unit name=take_native_i8_2x2 props=C03 kind=bounded bound=values=2_indices=2_no_index_validity mayreject=1 fns=take_native timeout=900 mem=8 tier=quick
take_native_nonull!(take_native_i8_2x2, i8, idx_i8, 2, 2);
// @unit name=take_native_i8_3x3 props=C03 kind=bounded bound=values=3_indices=3_no_index_validity mayreject=1 fns=take_native timeout=900 mem=8 tier=quick
take_native_nonull!(take_native_i8_3x3, i8, idx_i8, 3, 3);
// @unit name=take_native_u32_3x2 props=C03 kind=bounded bound=values=3_indices=2_no_index_validity mayreject=1 fns=take_native timeout=900 mem=8 tier=quick
take_native_nonull!(take_native_u32_3x2, u32, idx_u32, 3, 2);

// Contract (C03): take_native with an index validity bitmap (symbolic bits at bit offset 3),
// under the precondition check_bounds establishes — every *valid* index is in [0, V) — and arbitrary
// garbage (including out-of-range and negative values) under the null slots: it never panics, returns K
// elements, and out[k] == values[idx[k]] for every valid k. (Not a may-reject harness: a panic on a
// null slot would be a violation — "null index => null row", not an error.)
macro_rules! take_native_nulls {
    ($name:ident, $it:ty, $mk:ident, $v:expr, $k:expr) => {
        #[kani::proof]
        #[kani::unwind(8)]
        #[kani::stub(alloc::fmt::format, stub_format)]
        fn $name() {
            const V: usize = $v;
            const K: usize = $k;
            let vals: [i32; V] = kani::any();
            let idx: [$it; K] = kani::any();
            let bm: [u8; 2] = kani::any();
            let boff: usize = 3;
            let mut k = 0;
            while k < K {
                if bit(&bm, boff + k) { kani::assume(idx[k] as i128 >= 0 && (idx[k] as i128) < V as i128); }
                k += 1;
            }
            let indices = $mk(&idx, Some(mk_nulls(&bm, boff, K)));
            let out = take_native::<i32, _>(&vals, &indices);
            assert!(out.len() == K);
            k = 0;
            while k < K {
                if bit(&bm, boff + k) { assert!(out[k] == vals[idx[k] as usize]); }
                k += 1;
            }
            kani::cover!(!bit(&bm, boff) && (idx[0] as i128) >= V as i128 && bit(&bm, boff + 1));   // OOB garbage under a null
            kani::cover!(!bit(&bm, boff + 1) && (idx[1] as i128) < V as i128 && bit(&bm, boff));
            kani::cover!(bit(&bm, boff) && bit(&bm, boff + K - 1));
            std::mem::forget(indices);
        }
    };
}
// @unit name=take_native_i8_2x2_nulls props=C03 kind=bounded bound=values=2_indices=2_index_validity_present fns=take_native timeout=900 mem=8 tier=quick
take_native_nulls!(take_native_i8_2x2_nulls, i8, idx_i8, 2, 2);
// @unit name=take_native_i8_3x3_nulls props=C03 kind=bounded bound=values=3_indices=3_index_validity_present fns=take_native timeout=900 mem=8 tier=quick
take_native_nulls!(take_native_i8_3x3_nulls, i8, idx_i8, 3, 3);
// @unit name=take_native_u32_3x2_nulls props=C03 kind=bounded bound=values=3_indices=2_index_validity_present fns=take_native timeout=900 mem=8 tier=quick
take_native_nulls!(take_native_u32_3x2_nulls, u32, idx_u32, 3, 2);

// Contract (C03): take_native with an index validity bitmap and an arbitrary (possibly out-of-range)
// *valid* index: either a checked panic (may-reject) or the index was in range — never an unchecked read
// (Kani's memory-safety checks are active on every path).
// @unit name=take_native_i8_2x2_nulls_oob props=C03 kind=bounded bound=values=2_indices=2_index_validity_present mayreject=1 fns=take_native timeout=900 mem=8 tier=quick
#[kani::proof]
#[kani::unwind(8)]
#[kani::stub(alloc::fmt::format, stub_format)]
fn take_native_i8_2x2_nulls_oob() {
    let vals: [i32; 2] = kani::any();
    let idx: [i8; 2] = kani::any();
    let bm: [u8; 1] = kani::any();
    let indices = idx_i8(&idx, Some(mk_nulls(&bm, 0, 2)));
    let out = take_native::<i32, _>(&vals, &indices);
    assert!(out.len() == 2);
    let mut k = 0;
    while k < 2 {
        // the all-valid bitmap takes the no-null path; either way a valid index that got here is in range
        if bit(&bm, k) { assert!(idx[k] >= 0 && idx[k] < 2 && out[k] == vals[idx[k] as usize]); }
        k += 1;
    }
    kani::cover!(bit(&bm, 0) && !bit(&bm, 1));
    std::mem::forget(indices);
}

// Contract (C03): take_nulls(values_validity, indices): output row k is valid <=> index k is valid /\
// the values row idx[k] is valid  ("null index => null row"; a null source row stays null). None means
// all K rows valid. In-range valid indices are a precondition (established by check_bounds / take_native).
macro_rules! take_nulls_unit {
    ($name:ident, $v:expr, $k:expr, $vnulls:expr, $inulls:expr) => {
        #[kani::proof]
        #[kani::unwind(8)]
        #[kani::stub(alloc::fmt::format, stub_format)]
        fn $name() {
            const V: usize = $v;
            const K: usize = $k;
            let idx: [i8; K] = kani::any();
            let vbm: [u8; 2] = kani::any();
            let ibm: [u8; 2] = kani::any();
            let (voff, ioff): (usize, usize) = (5, 2);
            let mut k = 0;
            while k < K {
                let iv = !$inulls || bit(&ibm, ioff + k);
                if iv { kani::assume(idx[k] >= 0 && (idx[k] as usize) < V); }
                k += 1;
            }
            let vn = if $vnulls { Some(mk_nulls(&vbm, voff, V)) } else { None };
            let indices = idx_i8(&idx, if $inulls { Some(mk_nulls(&ibm, ioff, K)) } else { None });
            let out = take_nulls(vn.as_ref(), &indices);
            k = 0;
            while k < K {
                let iv = !$inulls || bit(&ibm, ioff + k);
                let expect = iv && (!$vnulls || bit(&vbm, voff + idx[k] as usize));
                match &out {
                    Some(o) => { assert!(o.len() == K); assert!(o.is_valid(k) == expect); }
                    None => assert!(expect),
                }
                k += 1;
            }
            if let Some(o) = &out {
                let mut z = 0;
                k = 0;
                while k < K {
                    if !o.is_valid(k) { z += 1 }
                    k += 1;
                }
                assert!(o.null_count() == z);
            }
            kani::cover!(out.is_some());
            kani::cover!($inulls || out.is_none());
            std::mem::forget(indices);
        }
    };
}
// @unit name=take_nulls_v3_k2_values_nulls props=C03 kind=bounded bound=values=3_indices=2_values_validity_only fns=take_nulls,take_bits timeout=900 mem=8 tier=quick
take_nulls_unit!(take_nulls_v3_k2_values_nulls, 3, 2, true, false);
// @unit name=take_nulls_v3_k2_index_nulls props=C03 kind=bounded bound=values=3_indices=2_index_validity_only fns=take_nulls timeout=900 mem=8 tier=quick
take_nulls_unit!(take_nulls_v3_k2_index_nulls, 3, 2, false, true);
// @unit name=take_nulls_v3_k2_both_nulls props=C03 kind=bounded bound=values=3_indices=2_both_validities fns=take_nulls,take_bits timeout=900 mem=8 tier=thorough
take_nulls_unit!(take_nulls_v3_k2_both_nulls, 3, 2, true, true);

// Contract (C03): take_bits(values_bits, indices): output has K bits and bit k == values bit idx[k] for
// every valid index k (values: V bits at bit offset 5). Without index validity: a valid
// out-of-range index is rejected by a checked panic (may-reject), never read. With index validity: under
// check_bounds' postcondition (valid indices in range, garbage under nulls) it never panics.
macro_rules! take_bits_unit {
    ($name:ident, $v:expr, $k:expr, $inulls:expr) => {
        #[kani::proof]
        #[kani::unwind(8)]
        #[kani::stub(alloc::fmt::format, stub_format)]
        fn $name() {
            const V: usize = $v;
            const K: usize = $k;
            let idx: [i8; K] = kani::any();
            let vb: [u8; 2] = kani::any();
            let ibm: [u8; 2] = kani::any();
            let (voff, ioff): (usize, usize) = (5, 2);
            let values = BooleanBuffer::new(Buffer::from_slice_ref(&vb), voff, V);
            if $inulls {
                // precondition from check_bounds: valid indices in range; garbage under null slots
                let mut k = 0;
                while k < K {
                    if bit(&ibm, ioff + k) { kani::assume(idx[k] >= 0 && (idx[k] as usize) < V); }
                    k += 1;
                }
            }
            let indices = idx_i8(&idx, if $inulls { Some(mk_nulls(&ibm, ioff, K)) } else { None });
            let out = take_bits(&values, &indices);
            assert!(out.len() == K);
            let mut k = 0;
            while k < K {
                if !$inulls || bit(&ibm, ioff + k) {
                    assert!(idx[k] >= 0 && (idx[k] as usize) < V);
                    assert!(out.value(k) == bit(&vb, voff + idx[k] as usize));
                }
                k += 1;
            }
            kani::cover!(out.value(0) && !out.value(K - 1));
            std::mem::forget(indices);
        }
    };
}
// @unit name=take_bits_v3_k2 props=C03 kind=bounded bound=values=3_bits_indices=2_no_index_validity mayreject=1 fns=take_bits timeout=900 mem=8 tier=quick
take_bits_unit!(take_bits_v3_k2, 3, 2, false);
// @unit name=take_bits_v3_k2_nulls props=C03 kind=bounded bound=values=3_bits_indices=2_index_validity_present_valid_indices_in_range fns=take_bits timeout=900 mem=8 tier=thorough
take_bits_unit!(take_bits_v3_k2_nulls, 3, 2, true);

// ------------------------------------------------------------------------------------------------
// layer 2: typed array wrappers
// ------------------------------------------------------------------------------------------------

// Contract (C03 + C01): take_boolean(values, indices) on a BooleanArray of 3 rows (values at bit offset 5,
// validity at bit offset 1, all bits symbolic) and 2 Int8 indices (validity at bit offset 2), under
// check_bounds' postcondition (valid indices in range, garbage under null slots): the result is a
// well-formed BooleanArray of 2 rows; row k is null <=> index k is null \/ source row idx[k] is null;
// otherwise it has the value of source row idx[k]; exact null count. Validity presence is concrete per
// instance; the instance with both validities present was measured at > 1040 cpu s / 9.9 GB (killed), so
// the two single-validity instances are kept (the row contract is the same formula).
macro_rules! take_boolean_unit {
    ($name:ident, $vnulls:expr, $inulls:expr) => {
        #[kani::proof]
        #[kani::unwind(8)]
        #[kani::stub(alloc::fmt::format, stub_format)]
        fn $name() {
            const V: usize = 3;
            const K: usize = 2;
            let vb: [u8; 1] = kani::any();
            let vbm: [u8; 1] = kani::any();
            let idx: [i8; K] = kani::any();
            let ibm: [u8; 1] = kani::any();
            let mut k = 0;
            while k < K {
                if !$inulls || bit(&ibm, 2 + k) { kani::assume(idx[k] >= 0 && (idx[k] as usize) < V); }
                k += 1;
            }
            let values = BooleanArray::new(BooleanBuffer::new(Buffer::from_slice_ref(&vb), 5, V), if $vnulls { Some(mk_nulls(&vbm, 1, V)) } else { None });
            let indices = idx_i8(&idx, if $inulls { Some(mk_nulls(&ibm, 2, K)) } else { None });
            let out = take_boolean(&values, &indices);
            assert!(out.len() == K);
            let mut z = 0;
            k = 0;
            while k < K {
                let null = ($inulls && !bit(&ibm, 2 + k)) || ($vnulls && !bit(&vbm, 1 + idx[k] as usize));
                assert!(out.is_null(k) == null);
                if null { z += 1 } else { assert!(out.value(k) == bit(&vb, 5 + idx[k] as usize)); }
                k += 1;
            }
            assert!(out.null_count() == z);
            kani::cover!(z == 1);
            kani::cover!(z == 0 && out.value(0) != out.value(1));
            std::mem::forget(out);
            std::mem::forget(indices);
            std::mem::forget(values);
        }
    };
}
// @unit name=take_boolean_v3_k2_index_nulls props=C03,C01 kind=bounded bound=values=3_indices=2_index_validity_only fns=take_boolean,take_bits,take_nulls timeout=900 mem=8 tier=thorough
take_boolean_unit!(take_boolean_v3_k2_index_nulls, false, true);
// @unit name=take_boolean_v3_k2_values_nulls props=C03,C01 kind=bounded bound=values=3_indices=2_values_validity_only fns=take_boolean,take_bits,take_nulls timeout=900 mem=8 tier=quick
take_boolean_unit!(take_boolean_v3_k2_values_nulls, true, false);

// Contract (C03 + C01, single attempt): take_primitive::<Int32Type, Int8Type>(values, indices) — same row
// contract on an Int32 array (2 values x 2 indices, both validities). The wrapper ends in
// try_new(..)?.with_data_type(values.data_type().clone()), i.e. a DataType clone/compare/drop inside the callee.
// @unit name=take_primitive_i8_2x2 props=C03,C01 kind=bounded bound=values=2_indices=2_both_validities fns=take_primitive,take_native,take_nulls timeout=900 mem=10 tier=thorough note=not_confirmed_out_of_memory_measured
#[kani::proof]
#[kani::unwind(8)]
#[kani::stub(alloc::fmt::format, stub_format)]
fn take_primitive_i8_2x2() {
    const V: usize = 2;
    const K: usize = 2;
    let vals: [i32; V] = kani::any();
    let vbm: [u8; 1] = kani::any();
    let idx: [i8; K] = kani::any();
    let ibm: [u8; 1] = kani::any();
    let mut k = 0;
    while k < K {
        if bit(&ibm, 2 + k) { kani::assume(idx[k] >= 0 && (idx[k] as usize) < V); }
        k += 1;
    }
    let values = unsafe {
        PrimitiveArray::<arrow_array::types::Int32Type>::new_unchecked(ScalarBuffer::new(Buffer::from_slice_ref(&vals), 0, V), Some(mk_nulls(&vbm, 1, V)))
    };
    let indices = idx_i8(&idx, Some(mk_nulls(&ibm, 2, K)));
    let r = take_primitive(&values, &indices);
    match &r {
        Ok(out) => {
            assert!(out.len() == K);
            k = 0;
            while k < K {
                let null = !bit(&ibm, 2 + k) || !bit(&vbm, 1 + idx[k] as usize);
                assert!(out.is_null(k) == null);
                if !null { assert!(out.value(k) == vals[idx[k] as usize]); }
                k += 1;
            }
        }
        Err(_) => assert!(false),
    }
    kani::cover!(!bit(&ibm, 2) && bit(&ibm, 3));
    std::mem::forget(r);
    std::mem::forget(indices);
    std::mem::forget(values);
}

// Contract (C03 + C01): take_bytes::<BinaryType, Int8Type>(array, indices) on a Binary array of 3 rows
// (4 symbolic monotone offsets into 6 symbolic bytes) and 2 indices (under check_bounds' postcondition:
// valid indices in [0,3); garbage under null index slots): Ok; the result is a well-formed Binary array of 2
// rows — offsets start at 0, monotone, last == values.len() — row k is null <=> index k is null \/ source
// row idx[k] is null; a non-null row k has exactly the bytes of source row idx[k]. The kernel copies with
// ptr::copy_nonoverlapping into spare capacity: Kani's memory-safety checks cover those writes.
macro_rules! take_bytes_unit {
    ($name:ident, $vnulls:expr, $inulls:expr) => {
        #[kani::proof]
        #[kani::unwind(9)]
        #[kani::stub(alloc::fmt::format, stub_format)]
        fn $name() {
            const V: usize = 3;
            const K: usize = 2;
            let offs: [i32; 4] = kani::any();
            kani::assume(offs[0] >= 0 && offs[0] <= offs[1] && offs[1] <= offs[2] && offs[2] <= offs[3] && offs[3] <= 6);
            let bytes: [u8; 6] = kani::any();
            let vbm: [u8; 1] = kani::any();
            let idx: [i8; K] = kani::any();
            let ibm: [u8; 1] = kani::any();
            let mut k = 0;
            while k < K {
                if !$inulls || bit(&ibm, 2 + k) { kani::assume(idx[k] >= 0 && (idx[k] as usize) < V); }
                k += 1;
            }
            let ob = unsafe { OffsetBuffer::new_unchecked(ScalarBuffer::new(Buffer::from_slice_ref(&offs), 0, 4)) };
            let a = unsafe {
                GenericByteArray::<arrow_array::types::BinaryType>::new_unchecked(ob, Buffer::from_slice_ref(&bytes), if $vnulls { Some(mk_nulls(&vbm, 1, V)) } else { None })
            };
            let indices = idx_i8(&idx, if $inulls { Some(mk_nulls(&ibm, 2, K)) } else { None });
            let r = take_bytes(&a, &indices);
            match &r {
                Ok(out) => {
                    assert!(out.len() == K);
                    let o = out.value_offsets();
                    assert!(o.len() == K + 1 && o[0] == 0 && o[0] <= o[1] && o[1] <= o[2]);
                    assert!(o[K] as usize == out.value_data().len());
                    k = 0;
                    while k < K {
                        let inull = $inulls && !bit(&ibm, 2 + k);
                        let null = inull || ($vnulls && !bit(&vbm, 1 + idx[k] as usize));
                        assert!(out.is_null(k) == null);
                        if !null {
                            let (sa, sb) = (offs[idx[k] as usize] as usize, offs[idx[k] as usize + 1] as usize);
                            let val = out.value(k);
                            assert!(val.len() == sb - sa);
                            let j: usize = kani::any();
                            if j < sb - sa { assert!(val[j] == bytes[sa + j]); }
                        }
                        k += 1;
                    }
                }
                Err(_) => assert!(false),
            }
            kani::cover!(idx[0] == 2 && idx[1] == 0 && offs[3] - offs[2] == 2 && offs[1] - offs[0] == 3);
            kani::cover!(!$inulls || (!bit(&ibm, 2) && bit(&ibm, 3)));
            std::mem::forget(r);
            std::mem::forget(indices);
            std::mem::forget(a);
        }
    };
}
// @unit name=take_bytes_v3_k2 props=C03,C01 kind=bounded bound=rows=3_value_bytes<=6_indices=2_no_validity fns=take_bytes timeout=900 mem=8 tier=quick
take_bytes_unit!(take_bytes_v3_k2, false, false);
// (both validities present: out of memory at 9.9 GB after 859 cpu s — cut; the nullable path of take_bytes is
// exercised with index validity only)
// @unit name=take_bytes_v3_k2_index_nulls props=C03,C01 kind=bounded bound=rows=3_value_bytes<=6_indices=2_index_validity_only fns=take_bytes,take_nulls timeout=900 mem=8 tier=thorough note=not_confirmed_not_run
take_bytes_unit!(take_bytes_v3_k2_index_nulls, false, true);
