// Kani contract harnesses for /repo/arrow-select/src/concat.rs (child module: sees private items via super::)
use super::*;
#[path = "/verif/kani/support/spec.rs"]
mod spec;
use spec::*;
use arrow_array::types::Int32Type;
use arrow_buffer::{BooleanBuffer, Buffer, NullBuffer, ScalarBuffer};

fn i32_array(store: &[i32; 2], bm: Option<&[u8; 1]>) -> PrimitiveArray<Int32Type> {
    let nulls = bm.map(|bm| NullBuffer::new(BooleanBuffer::new(Buffer::from_slice_ref(bm), 0, 2)));
    unsafe { PrimitiveArray::<Int32Type>::new_unchecked(ScalarBuffer::new(Buffer::from_slice_ref(store), 0, 2), nulls) }
}

// Contract (C03, layer 1, single attempt): concat_primitives::<Int32Type>([a0, a1]) with 2 arrays x 2 rows:
// the result has 4 rows = rows of a0 then rows of a1 (values on valid slots, nulls preserved).
// The typed core takes &[&dyn Array], appends through PrimitiveBuilder::append_array and ends in
// PrimitiveBuilder::finish (ArrayData-level, measured out of reach in the design phase).
// @unit name=concat_i32_2x2 props=C03 kind=bounded bound=arrays=2_rows=2_validity_on_first_array_only fns=concat_primitives timeout=900 mem=10 tier=thorough note=not_confirmed_not_run
#[kani::proof]
#[kani::unwind(8)]
#[kani::stub(alloc::fmt::format, stub_format)]
fn concat_i32_2x2() {
    let s0: [i32; 2] = kani::any();
    let s1: [i32; 2] = kani::any();
    let bm: [u8; 1] = kani::any();
    let a0 = i32_array(&s0, Some(&bm));
    let a1 = i32_array(&s1, None);
    let r = concat_primitives::<Int32Type>(&[&a0, &a1]);
    match &r {
        Ok(out) => {
            let out = out.as_any().downcast_ref::<PrimitiveArray<Int32Type>>().unwrap();
            assert!(out.len() == 4);
            let mut k = 0;
            while k < 4 {
                let null = k < 2 && !bit(&bm, k);
                assert!(out.is_null(k) == null);
                if !null { assert!(out.value(k) == if k < 2 { s0[k] } else { s1[k - 2] }); }
                k += 1;
            }
        }
        Err(_) => assert!(false),
    }
    kani::cover!(!bit(&bm, 1));
    std::mem::forget(r);
    std::mem::forget(a0);
    std::mem::forget(a1);
}
