// Kani contract harnesses for /repo/arrow-select/src/concat.rs (child module: sees private items via super::)
