// Kani contract harnesses for /repo/arrow-avro/src/reader/cursor.rs (child module: sees private items via super::)
use super::*;
#[path = "/verif/kani/support/spec.rs"]
mod spec;
use spec::*;

// C08: AvroCursor on ARBITRARY bytes (fixed 16-byte array, symbolic length n <= 16): every accessor
// returns Ok or Err, never panics, never reads outside the input; the cursor only moves forward and
// stays inside the input; returned slices are sub-slices of the input (same memory).
// Stub: alloc::fmt::format (error text).

fn any_input<const N: usize>() -> ([u8; N], usize) {
    let a: [u8; N] = kani::any();
    let n: usize = kani::any();
    kani::assume(n <= N);
    (a, n)
}

/// Avro varint by the format definition: Some((value, bytes)) iff terminated within 10 bytes and the
/// 10th byte (if any) is < 2
fn spec_varint(buf: &[u8], n: usize) -> Option<(u64, usize)> {
    let mut v = 0u64;
    let mut i = 0;
    while i < n && i < 10 {
        let b = buf[i];
        if i == 9 && b >= 2 {
            return None;
        }
        v |= ((b & 0x7f) as u64) << (7 * i);
        if b & 0x80 == 0 {
            return Some((v, i + 1));
        }
        i += 1;
    }
    None
}
fn unzigzag(u: u64) -> i64 {
    let w = u as i128;
    (if u & 1 == 0 { w / 2 } else { -((w + 1) / 2) }) as i64
}

/// position, with the invariant that the remaining slice is the suffix of the input at that position
fn pos_of(c: &AvroCursor<'_>, a: &[u8], n: usize) -> usize {
    let p = c.position();
    assert!(p <= n && c.buf.len() == n - p && c.buf.as_ptr() == a[p..].as_ptr());
    p
}

// Contract (C08): the fixed-width accessors.
//  get_u8 / get_bool: Ok(first byte / first byte != 0) and advance 1 iff n >= 1, else Err(EOF), no move
//  get_float / get_double: Ok(value whose bit pattern is the little-endian 4 / 8 bytes) and advance iff
//      enough bytes, else Err, no move  (C17: this is the exact inverse of the writer's to_le_bytes, NaN
//      payloads included)
//  get_fixed(k), any k: Ok(sub-slice input[p..p+k]) and advance k iff k <= remaining, else Err, no move
// @unit name=cursor_fixed_width props=C08,C17 kind=bounded bound=input<=16_bytes fns=AvroCursor::new,AvroCursor::position,AvroCursor::get_u8,AvroCursor::get_bool,AvroCursor::get_float,AvroCursor::get_double,AvroCursor::get_fixed timeout=480 mem=3
#[kani::proof]
#[kani::unwind(12)]
#[kani::stub(alloc::fmt::format, stub_format)]
fn cursor_fixed_width() {
    let (a, n) = any_input::<16>();
    let mut c = AvroCursor::new(&a[..n]);
    // start from an arbitrary position reached by a first get_fixed
    let p0: usize = kani::any();
    kani::assume(p0 <= n);
    let r0 = c.get_fixed(p0);
    assert!(r0.is_ok());
    std::mem::forget(r0);
    assert!(pos_of(&c, &a, n) == p0);
    let rem = n - p0;
    match kani::any::<u8>() {
        0 => {
            let r = c.get_u8();
            assert!(r.is_ok() == (rem >= 1));
            if let Ok(x) = &r {
                assert!(*x == a[p0]);
            }
            assert!(pos_of(&c, &a, n) == p0 + r.is_ok() as usize);
            kani::cover!(r.is_err() && p0 == 16);
            std::mem::forget(r);
        }
        1 => {
            let r = c.get_bool();
            assert!(r.is_ok() == (rem >= 1));
            if let Ok(x) = &r {
                assert!(*x == (a[p0] != 0));
            }
            assert!(pos_of(&c, &a, n) == p0 + r.is_ok() as usize);
            kani::cover!(matches!(r, Ok(true)) && a[p0] == 0x80);
            std::mem::forget(r);
        }
        2 => {
            let r = c.get_float();
            assert!(r.is_ok() == (rem >= 4));
            if let Ok(x) = &r {
                let j: usize = kani::any();
                kani::assume(j < 32);
                assert!(((x.to_bits() >> j) & 1 == 1) == bit(&a, p0 * 8 + j));
            }
            assert!(pos_of(&c, &a, n) == if rem >= 4 { p0 + 4 } else { p0 });
            kani::cover!(matches!(r, Ok(x) if x.is_nan()));
            kani::cover!(r.is_err() && rem == 3);
            std::mem::forget(r);
        }
        3 => {
            let r = c.get_double();
            assert!(r.is_ok() == (rem >= 8));
            if let Ok(x) = &r {
                let j: usize = kani::any();
                kani::assume(j < 64);
                assert!(((x.to_bits() >> j) & 1 == 1) == bit(&a, p0 * 8 + j));
            }
            assert!(pos_of(&c, &a, n) == if rem >= 8 { p0 + 8 } else { p0 });
            kani::cover!(matches!(r, Ok(x) if x.is_nan()) && p0 == 8);
            kani::cover!(r.is_err() && rem == 7);
            std::mem::forget(r);
        }
        _ => {
            let k: usize = kani::any();
            let r = c.get_fixed(k);
            assert!(r.is_ok() == (k <= rem));
            if let Ok(s) = &r {
                assert!(s.len() == k && s.as_ptr() == a[p0..].as_ptr());
            }
            assert!(pos_of(&c, &a, n) == if k <= rem { p0 + k } else { p0 });
            kani::cover!(r.is_ok() && k == 0);
            kani::cover!(r.is_err() && k == usize::MAX);
            std::mem::forget(r);
        }
    }
}

// Contract (C08, C17): the varint accessors on arbitrary bytes, against the format definition:
//  read_vlq : Ok(v), advance k  iff the input starts with a well-formed varint (v, k); else Err, no move
//  get_long : Ok(unzigzag(v)), advance k  under the same condition
//  get_int  : Ok(unzigzag32(v)), advance k  iff additionally v <= u32::MAX (an over-wide value is an Err,
//             not a silent truncation); Err otherwise, no move
//  skip_long: Ok and advance k  iff get_long would succeed
//  skip_int : Ok => get_int would succeed with the same k;  get_int Ok with k <= 5 => skip_int Ok.
//             (For non-canonical encodings of 6..10 bytes whose value still fits 32 bits get_int accepts
//             and skip_int rejects: recorded in REPORT as an observation, not asserted either way.)
// @unit name=cursor_varints props=C08,C17 kind=bounded bound=input<=12_bytes fns=AvroCursor::read_vlq,AvroCursor::get_int,AvroCursor::get_long,AvroCursor::skip_int,AvroCursor::skip_long timeout=480 mem=3
#[kani::proof]
#[kani::unwind(12)]
#[kani::stub(alloc::fmt::format, stub_format)]
fn cursor_varints() {
    let (a, n) = any_input::<12>();
    let mut c = AvroCursor::new(&a[..n]);
    let model = spec_varint(&a, n);
    let which: u8 = kani::any();
    match which {
        0 => {
            let r = c.read_vlq();
            assert!(r.is_ok() == model.is_some());
            if let Ok(v) = &r {
                assert!(*v == model.unwrap().0);
            }
            assert!(pos_of(&c, &a, n) == model.map_or(0, |m| m.1));
            kani::cover!(matches!(r, Ok(u64::MAX)));
            kani::cover!(r.is_err() && n == 12);
            std::mem::forget(r);
        }
        1 => {
            let r = c.get_long();
            assert!(r.is_ok() == model.is_some());
            if let Ok(v) = &r {
                assert!(*v == unzigzag(model.unwrap().0));
            }
            assert!(pos_of(&c, &a, n) == model.map_or(0, |m| m.1));
            kani::cover!(matches!(r, Ok(i64::MIN)));
            std::mem::forget(r);
        }
        2 => {
            let r = c.get_int();
            let fits = model.is_some() && model.unwrap().0 <= u32::MAX as u64;
            assert!(r.is_ok() == fits);
            if let Ok(v) = &r {
                assert!(*v as i64 == unzigzag(model.unwrap().0));
            }
            // the varint is consumed even when the value is rejected as too wide
            assert!(pos_of(&c, &a, n) == model.map_or(0, |m| m.1));
            kani::cover!(matches!(r, Ok(i32::MIN)));
            kani::cover!(r.is_err() && model.is_some());
            std::mem::forget(r);
        }
        3 => {
            let r = c.skip_long();
            assert!(r.is_ok() == model.is_some());
            assert!(pos_of(&c, &a, n) == model.map_or(0, |m| m.1));
            kani::cover!(r.is_ok() && c.position() == 10);
            std::mem::forget(r);
        }
        _ => {
            let r = c.skip_int();
            let fits = model.is_some() && model.unwrap().0 <= u32::MAX as u64;
            if r.is_ok() {
                assert!(fits);
                assert!(pos_of(&c, &a, n) == model.unwrap().1);
            } else {
                assert!(pos_of(&c, &a, n) == 0);
                // a rejected skip is either a value get_int rejects too, or a non-canonical long form
                assert!(!fits || model.unwrap().1 > 5);
            }
            kani::cover!(r.is_ok() && c.position() == 5);
            kani::cover!(r.is_err() && fits); // the observation above
            kani::cover!(r.is_err() && model.is_some() && model.unwrap().1 == 5);
            std::mem::forget(r);
        }
    }
}

// Contract (C08): get_bytes on arbitrary input: the length prefix is an Avro long L; Ok(s) iff the prefix
// is a well-formed varint, L >= 0 and L <= bytes remaining after the prefix — then s is exactly
// input[k .. k+L] (same memory) and the cursor sits right behind it; a negative or too large L (up to
// i64::MAX: no wrap-around, no huge allocation — nothing is allocated at all) is an Err.
// @unit name=cursor_get_bytes props=C08 kind=bounded bound=input<=14_bytes fns=AvroCursor::get_bytes timeout=480 mem=3
#[kani::proof]
#[kani::unwind(12)]
#[kani::stub(alloc::fmt::format, stub_format)]
fn cursor_get_bytes() {
    let (a, n) = any_input::<14>();
    let mut c = AvroCursor::new(&a[..n]);
    let r = c.get_bytes();
    match spec_varint(&a, n) {
        None => assert!(r.is_err() && pos_of(&c, &a, n) == 0),
        Some((v, k)) => {
            let l = unzigzag(v);
            let fits = l >= 0 && l as u64 <= (n - k) as u64;
            assert!(r.is_ok() == fits);
            if let Ok(s) = &r {
                assert!(s.len() as i64 == l && s.as_ptr() == a[k..].as_ptr());
                assert!(pos_of(&c, &a, n) == k + l as usize);
            } else {
                assert!(pos_of(&c, &a, n) == k);
            }
            kani::cover!(r.is_ok() && l == 13);
            kani::cover!(r.is_ok() && l == 0);
            kani::cover!(r.is_err() && l < 0);
            kani::cover!(r.is_err() && l == i64::MAX);
            kani::cover!(r.is_err() && l as u64 == (n - k) as u64 + 1);
        }
    }
    std::mem::forget(r);
}
