// Kani contract harnesses for /repo/arrow-avro/src/reader/cursor.rs (child module: sees private items via super::)
