// Kani contract harnesses for /repo/arrow-avro/src/reader/block.rs (child module: sees private items via super::)
use super::*;
#[path = "/verif/kani/support/spec.rs"]
mod spec;
use spec::*;

// Contract (C14, C18): BlockDecoder::decode is independent of chunking on a complete block with a
// PAYLOAD-byte payload: input = count varint (1 byte, symbolic count 0..=63) ++ size varint (1 byte =
// PAYLOAD) ++ PAYLOAD arbitrary bytes ++ 16 arbitrary sync bytes ++ 2 trailing bytes. Feeding the input
// in two chunks cut at ANY position (empty chunks included) yields, like the one-shot call: all bytes of
// the block consumed and not one more (the trailing bytes are left for the next block), flush() =
// Some(block) with block.count = count, block.data = the payload bytes, block.sync = exactly the 16 bytes
// that follow the payload (so the reader's comparison against the header's sync marker sees the bytes of
// the file — a mismatch cannot be masked by the split), and a second flush() = None. A block cut short
// (input ends early) leaves flush() = None: no block is ever produced from a truncated block.
// Grid rule: the payload size is concrete per harness (it sizes Vec::reserve/extend_from_slice).
// Stub: alloc::fmt::format.
fn block_chunking<const PAYLOAD: usize>() {
    const HDR: usize = 2;
    let count: u8 = kani::any();
    kani::assume(count < 64);
    let body: [u8; 24] = kani::any();
    let total = HDR + PAYLOAD + 16;
    let mut input = [0u8; 28];
    input[0] = 2 * count; // zig-zag of a small non-negative long
    input[1] = 2 * PAYLOAD as u8;
    let mut i = 0;
    while i < PAYLOAD + 16 + 2 {
        input[HDR + i] = body[i];
        i += 1;
    }
    let n = total + 2;
    let cut: usize = kani::any();
    kani::assume(cut <= n);
    let mut d = BlockDecoder::default();
    let r1 = d.decode(&input[..cut]);
    let u1 = match &r1 {
        Ok(u) => *u,
        Err(_) => {
            assert!(false);
            0
        }
    };
    std::mem::forget(r1);
    assert!(u1 == if cut < total { cut } else { total });
    if cut < total {
        // truncated so far: nothing to flush
        assert!(d.flush().is_none());
        let r2 = d.decode(&input[cut..n]);
        let u2 = match &r2 {
            Ok(u) => *u,
            Err(_) => {
                assert!(false);
                0
            }
        };
        std::mem::forget(r2);
        assert!(u1 + u2 == total);
    }
    let b = d.flush();
    assert!(b.is_some());
    let b = b.unwrap();
    assert!(b.count == count as usize);
    assert!(b.data.len() == PAYLOAD);
    let j: usize = kani::any();
    kani::assume(j < 16);
    assert!(b.sync[j] == input[HDR + PAYLOAD + j]);
    if PAYLOAD > 0 {
        let k: usize = kani::any();
        kani::assume(k < PAYLOAD);
        assert!(b.data[k] == input[HDR + k]);
    }
    assert!(d.flush().is_none());
    kani::cover!(cut == 0);
    kani::cover!(cut == 1);
    kani::cover!(cut == HDR + PAYLOAD + 7); // inside the sync marker
    kani::cover!(cut == total);
    kani::cover!(cut == n);
}
// NOT CONFIRMED: did not finish within 900 s under a machine load of ~70 (no memory problem observed: 2.3 GB)
// @unit name=block_decode_chunking_p0 props=C14,C18 kind=bounded bound=payload=0_bytes_2_chunks fns=BlockDecoder::decode,BlockDecoder::flush tier=thorough timeout=900 mem=6
#[kani::proof]
#[kani::unwind(24)]
#[kani::stub(alloc::fmt::format, stub_format)]
fn block_decode_chunking_p0() {
    block_chunking::<0>()
}
// NOT CONFIRMED: did not finish within 900 s under a machine load of ~70
// @unit name=block_decode_chunking_p3 props=C14,C18 kind=bounded bound=payload=3_bytes_2_chunks fns=BlockDecoder::decode,BlockDecoder::flush tier=thorough timeout=900 mem=6
#[kani::proof]
#[kani::unwind(24)]
#[kani::stub(alloc::fmt::format, stub_format)]
fn block_decode_chunking_p3() {
    block_chunking::<3>()
}

// Contract (C08, C18): a negative block count or block size (corrupt header) is an error, not a panic or a
// wrapped usize; an over-long varint is an error.
// NOT CONFIRMED: did not finish within 900 s under a machine load of ~70
// @unit name=block_decode_rejects_negative props=C08,C18 kind=bounded bound=input<=12_bytes_header_only fns=BlockDecoder::decode tier=thorough timeout=900 mem=4
#[kani::proof]
#[kani::unwind(14)]
#[kani::stub(alloc::fmt::format, stub_format)]
fn block_decode_rejects_negative() {
    let a: [u8; 12] = kani::any();
    let n: usize = kani::any();
    kani::assume(n <= 12);
    // keep the decoder in the two header states: the size varint, if reached, announces 0 payload bytes or is negative/malformed
    let mut d = BlockDecoder::default();
    // first varint
    let mut v = 0u64;
    let mut i = 0;
    let mut first: Option<(u64, usize)> = None;
    let mut malformed = false;
    while i < n && i < 10 {
        if i == 9 && a[i] >= 2 {
            malformed = true;
            break;
        }
        v |= ((a[i] & 0x7f) as u64) << (7 * i);
        if a[i] & 0x80 == 0 {
            first = Some((v, i + 1));
            break;
        }
        i += 1;
    }
    // only look at inputs that end with the first varint (the count)
    kani::assume(malformed || first.is_none() || first.unwrap().1 == n);
    let r = d.decode(&a[..n]);
    if malformed {
        assert!(r.is_err());
    } else if let Some((u, _)) = first {
        // zig-zag: odd images are negative
        assert!(r.is_ok() == (u & 1 == 0));
        if r.is_ok() {
            assert!(d.in_progress.count as u64 == u / 2);
        }
    } else {
        assert!(matches!(r, Ok(k) if k == n));
    }
    assert!(d.flush().is_none());
    kani::cover!(malformed);
    kani::cover!(r.is_err() && !malformed);
    kani::cover!(r.is_ok() && first.is_some() && n == 10);
    std::mem::forget(r);
}
