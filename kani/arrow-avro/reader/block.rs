// Kani contract harnesses for /repo/arrow-avro/src/reader/block.rs (child module: sees private items via super::)
