// Kani contract harnesses for /repo/arrow-avro/src/reader/block.rs (child module: sees private items via super::)
use super::*;
#[path = "/verif/kani/support/spec.rs"]
mod spec;
use spec::*;

// Contract (C14, C18): BlockDecoder::decode is independent of chunking on a complete block with a
// PAYLOAD-byte payload: input = count varint (1 byte, symbolic count 0..=63) ++ size varint (1 byte =
// PAYLOAD) ++ PAYLOAD arbitrary bytes ++ 16 arbitrary sync bytes ++ 2 trailing bytes. Feeding the input
// in two chunks cut at ANY position (empty chunks included) yields, like the one-shot call: all bytes of
// the block consumed and not one more (the trailing bytes are left for the next block), flush() =
// Some(block) with block.count = count, block.data = the payload bytes, block.sync = exactly the 16 bytes
// that follow the payload (so the reader's comparison against the header's sync marker — reader/mod.rs —
// sees the bytes of the file: a mismatch cannot be masked or produced by the split), and a second flush()
// = None. A block cut short (input ends early) leaves flush() = None: no block is ever produced from a
// truncated block.
// Grid rule: the payload size is concrete per harness (it sizes Vec::reserve/extend_from_slice).
// The harness itself is loop-free so that a small unwind bound suffices (decode's outer loop runs once
// per decoder state, the varint loop once per varint byte).
// Stub: alloc::fmt::format.
fn block_chunking<const PAYLOAD: usize, const TOTAL: usize>() {
    // TOTAL = 2 + PAYLOAD + 16 + 2
    let count: u8 = kani::any();
    kani::assume(count < 64);
    let mut input: [u8; TOTAL] = kani::any();
    input[0] = 2 * count; // zig-zag of a small non-negative long
    input[1] = 2 * PAYLOAD as u8;
    let total = 2 + PAYLOAD + 16;
    let n = TOTAL;
    let cut: usize = kani::any();
    kani::assume(cut <= n);
    let mut d = BlockDecoder::default();
    let r1 = d.decode(&input[..cut]);
    let u1 = match &r1 {
        Ok(u) => *u,
        Err(_) => {
            assert!(false);
            0
        }
    };
    std::mem::forget(r1);
    assert!(u1 == if cut < total { cut } else { total });
    if cut < total {
        // truncated so far: nothing to flush
        assert!(d.flush().is_none());
        let r2 = d.decode(&input[cut..n]);
        let u2 = match &r2 {
            Ok(u) => *u,
            Err(_) => {
                assert!(false);
                0
            }
        };
        std::mem::forget(r2);
        assert!(u1 + u2 == total);
    }
    let b = d.flush();
    assert!(b.is_some());
    let b = b.unwrap();
    assert!(b.count == count as usize);
    assert!(b.data.len() == PAYLOAD);
    let j: usize = kani::any();
    kani::assume(j < 16);
    assert!(b.sync[j] == input[2 + PAYLOAD + j]);
    if PAYLOAD > 0 {
        let k: usize = kani::any();
        kani::assume(k < PAYLOAD);
        assert!(b.data[k] == input[2 + k]);
    }
    assert!(d.flush().is_none());
    kani::cover!(cut == 0);
    kani::cover!(cut == 1);
    kani::cover!(cut == 2 + PAYLOAD + 7); // inside the sync marker
    kani::cover!(cut == total);
    kani::cover!(cut == n);
}
// NOT CONFIRMED YET (an earlier form with loops in the harness and unwind 24 did not finish in 900 s under load)
// @unit name=block_decode_chunking_p0 props=C14,C18 kind=bounded bound=payload=0_bytes_2_chunks fns=BlockDecoder::decode,BlockDecoder::flush tier=thorough timeout=900 mem=6
#[kani::proof]
#[kani::unwind(7)]
#[kani::stub(alloc::fmt::format, stub_format)]
fn block_decode_chunking_p0() {
    block_chunking::<0, 20>()
}
// NOT CONFIRMED YET
// @unit name=block_decode_chunking_p3 props=C14,C18 kind=bounded bound=payload=3_bytes_2_chunks fns=BlockDecoder::decode,BlockDecoder::flush tier=thorough timeout=900 mem=6
#[kani::proof]
#[kani::unwind(7)]
#[kani::stub(alloc::fmt::format, stub_format)]
fn block_decode_chunking_p3() {
    block_chunking::<3, 23>()
}

// Contract (C08, C18): a negative block count or a negative block size (corrupt header) is an error, not
// a panic and not a wrapped usize: for a header made of a 1-byte count varint and a 1-byte size varint
// (arbitrary values), decode returns Err exactly when the zig-zag image of the count or of the size is odd
// (negative); otherwise Ok with count and the announced size recorded. (Over-long varints: VLQDecoder units.)
// (confirmed: 844 s under load)
// @unit name=block_decode_rejects_negative props=C08,C18 kind=bounded bound=header_of_two_1-byte_varints fns=BlockDecoder::decode tier=thorough timeout=900 mem=4
#[kani::proof]
#[kani::unwind(5)]
#[kani::stub(alloc::fmt::format, stub_format)]
fn block_decode_rejects_negative() {
    let c: u8 = kani::any();
    let s: u8 = kani::any();
    kani::assume(c < 0x80 && s < 0x80);
    let input = [c, s];
    let mut d = BlockDecoder::default();
    let r = d.decode(&input);
    let neg = c & 1 == 1 || s & 1 == 1;
    assert!(r.is_ok() == !neg);
    if r.is_ok() {
        assert!(d.in_progress.count == (c / 2) as usize);
        // the announced payload size is what the decoder now waits for
        assert!(d.bytes_remaining == (s / 2) as usize);
    }
    assert!(d.flush().is_none());
    kani::cover!(r.is_err() && c & 1 == 1);
    kani::cover!(r.is_err() && c & 1 == 0);
    kani::cover!(r.is_ok() && s == 0);
    kani::cover!(r.is_ok() && s == 126);
    std::mem::forget(r);
}
