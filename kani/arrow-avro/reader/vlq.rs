// Kani contract harnesses for /repo/arrow-avro/src/reader/vlq.rs (child module: sees private items via super::)
use super::*;
#[path = "/verif/kani/support/spec.rs"]
mod spec;
use spec::*;

// ---------------------------------------------------------------------------------------------
// Independent specification of the Avro `long` wire format (Avro 1.11 spec, "binary encoding":
// zig-zag, then base-128 little-endian groups with a continuation bit).
// ---------------------------------------------------------------------------------------------

/// what a byte string means as ONE varint, by the format definition
#[derive(PartialEq, Eq, Clone, Copy)]
enum Varint {
    /// terminated within 10 bytes and representable in 64 bits: (value, bytes used)
    Value(u64, usize),
    /// the 10th byte (index 9) would carry bits beyond 2^64 or a continuation bit
    Malformed,
    /// input ends before a terminator (fewer than 10 bytes seen)
    Incomplete,
}

fn spec_varint(buf: &[u8], n: usize) -> Varint {
    let mut v = 0u64;
    let mut i = 0;
    while i < n && i < 10 {
        let b = buf[i];
        if i == 9 && b >= 2 {
            return Varint::Malformed;
        }
        v |= ((b & 0x7f) as u64) << (7 * i);
        if b & 0x80 == 0 {
            return Varint::Value(v, i + 1);
        }
        i += 1;
    }
    Varint::Incomplete
}

/// zig-zag decoding by its arithmetic definition (128-bit): even u -> u/2, odd u -> -(u+1)/2
fn unzigzag(u: u64) -> i64 {
    let w = u as i128;
    (if u & 1 == 0 { w / 2 } else { -((w + 1) / 2) }) as i64
}

/// canonical (shortest) encoding of a zig-zag image: groups of 7 bits, least significant first
fn spec_encode(zz: u64) -> ([u8; 10], usize) {
    let bitlen = 64 - zz.leading_zeros() as usize;
    let len = if zz == 0 { 1 } else { (bitlen + 6) / 7 };
    let mut out = [0u8; 10];
    let mut i = 0;
    while i < len {
        let g = ((zz >> (7 * i)) & 0x7f) as u8;
        out[i] = if i + 1 < len { g | 0x80 } else { g };
        i += 1;
    }
    (out, len)
}

fn any_input<const N: usize>() -> ([u8; N], usize) {
    let a: [u8; N] = kani::any();
    let n: usize = kani::any();
    kani::assume(n <= N);
    (a, n)
}

/// Feeds `bytes[from..to]` to the decoder; returns (result tag, value, bytes consumed from this chunk).
/// tag: 0 = Ok(None) (needs more), 1 = Ok(Some(v)), 2 = Err
fn feed(d: &mut VLQDecoder, bytes: &[u8], from: usize, to: usize) -> (u8, i64, usize) {
    let mut s: &[u8] = &bytes[from..to];
    let r = d.long(&mut s);
    let used = (to - from) - s.len();
    let out = match &r {
        Ok(None) => (0, 0, used),
        Ok(Some(v)) => (1, *v, used),
        Err(_) => (2, 0, used),
    };
    std::mem::forget(r);
    out
}

// Contract (C08, C17): VLQDecoder::long from the initial state on ANY byte string of <= 12 bytes, one call:
//  Ok(Some(x))  iff the string starts with a well-formed varint (terminator within 10 bytes, 10th byte < 2);
//               x is the zig-zag decoding of its value, exactly its bytes are consumed, state is reset;
//  Err          iff the first 9 bytes all have the continuation bit and a 10th byte >= 2 follows — the
//               decoder consumes the 9 bytes, resets its state, and never shifts by >= 64 (no panic);
//  Ok(None)     otherwise (input exhausted inside the varint): everything consumed, state = the partial
//               value (in_progress = value of the groups so far, shift = 7 * bytes).
// Stub: alloc::fmt::format.
// @unit name=vlq_long_oneshot_def props=C08,C17 kind=complete fns=VLQDecoder::long timeout=480 mem=3
#[kani::proof]
#[kani::unwind(14)]
#[kani::stub(alloc::fmt::format, stub_format)]
fn vlq_long_oneshot_def() {
    let (a, n) = any_input::<12>();
    let mut d = VLQDecoder::default();
    let (tag, val, used) = feed(&mut d, &a, 0, n);
    match spec_varint(&a, n) {
        Varint::Value(u, k) => {
            assert!(tag == 1 && val == unzigzag(u) && used == k);
            assert!(d.in_progress == 0 && d.shift == 0);
        }
        Varint::Malformed => {
            assert!(tag == 2 && used == 9);
            assert!(d.in_progress == 0 && d.shift == 0);
        }
        Varint::Incomplete => {
            assert!(tag == 0 && used == n && n < 10);
            assert!(d.shift as usize == 7 * n);
            let j: usize = kani::any();
            kani::assume(j < 64);
            // bit j of the partial value is bit (j mod 7) of byte (j div 7)
            assert!(((d.in_progress >> j) & 1 == 1) == (j < 7 * n && (a[j / 7] >> (j % 7)) & 1 == 1));
        }
    }
    kani::cover!(tag == 1 && used == 10 && val == i64::MIN);
    kani::cover!(tag == 1 && used == 1 && val == -1);
    kani::cover!(tag == 2);
    kani::cover!(tag == 0 && n == 9);
    kani::cover!(tag == 1 && used < n);
}

// Contract (C14): VLQDecoder::long is independent of chunking. For every byte string of <= 11 bytes and
// every way of cutting it into 2 (resp. 3) consecutive chunks — empty chunks included — feeding the
// chunks one after the other (stopping as soon as a call returns a value or an error, as every caller
// does) gives the same outcome as feeding the whole string at once: same Ok(None)/Ok(Some(x))/Err, same
// x, same total number of bytes consumed, same residual decoder state (in_progress, shift).
// Stub: alloc::fmt::format.
fn chunked<const CUTS: usize>() {
    let (a, n) = any_input::<11>();
    // one shot
    let mut d1 = VLQDecoder::default();
    let (t1, v1, u1) = feed(&mut d1, &a, 0, n);
    // chunked
    let mut cuts = [0usize; CUTS];
    let mut prev = 0;
    let mut i = 0;
    while i < CUTS {
        let c: usize = kani::any();
        kani::assume(c >= prev && c <= n);
        cuts[i] = c;
        prev = c;
        i += 1;
    }
    let mut d2 = VLQDecoder::default();
    let mut from = 0;
    let mut total = 0;
    let mut t2 = 0;
    let mut v2 = 0;
    let mut i = 0;
    while i <= CUTS && t2 == 0 {
        let to = if i < CUTS { cuts[i] } else { n };
        let (t, v, u) = feed(&mut d2, &a, from, to);
        total += u;
        t2 = t;
        v2 = v;
        // a chunk is consumed completely unless it produced a value or an error
        assert!(t != 0 || u == to - from);
        from = to;
        i += 1;
    }
    assert!(t1 == t2 && v1 == v2 && u1 == total);
    assert!(d1.in_progress == d2.in_progress && d1.shift == d2.shift);
    kani::cover!(t1 == 1 && u1 == 10 && cuts[0] == 3);
    kani::cover!(t1 == 1 && cuts[0] == 0); // empty first chunk
    kani::cover!(t1 == 1 && cuts[CUTS - 1] == n); // empty last chunk
    kani::cover!(t1 == 2 && cuts[0] == 9); // the offending 10th byte starts a chunk
    kani::cover!(t1 == 0 && n == 9 && cuts[0] == 4);
    kani::cover!(t1 == 1 && u1 < n && cuts[0] > u1); // value ends inside the first chunk
}
// @unit name=vlq_long_chunking_2way props=C14 kind=complete fns=VLQDecoder::long tier=quick timeout=480 mem=3
#[kani::proof]
#[kani::unwind(13)]
#[kani::stub(alloc::fmt::format, stub_format)]
fn vlq_long_chunking_2way() {
    chunked::<1>()
}
// @unit name=vlq_long_chunking_3way props=C14 kind=complete fns=VLQDecoder::long tier=thorough timeout=900 mem=4
#[kani::proof]
#[kani::unwind(13)]
#[kani::stub(alloc::fmt::format, stub_format)]
fn vlq_long_chunking_3way() {
    chunked::<2>()
}

// Contract (C08): on every 10-byte array the unrolled fast path and the generic slow path agree with each
// other and with the format definition: read_varint_array(b) = read_varint_slow(&b) = Some((value, k)) iff
// a terminator occurs at index k-1 <= 9 (and the 10th byte, if reached, is < 2), else None; same for
// skip_varint_array vs the count. (The fast path's add/subtract trick never overflows.)
// @unit name=varint_fast_slow_agree props=C08 kind=complete fns=read_varint_array,read_varint_slow,skip_varint_array timeout=240
#[kani::proof]
#[kani::unwind(12)]
fn varint_fast_slow_agree() {
    let b: [u8; 10] = kani::any();
    let fast = read_varint_array(b);
    let slow = read_varint_slow(&b);
    let skip = skip_varint_array(b);
    assert!(fast == slow);
    match spec_varint(&b, 10) {
        Varint::Value(v, k) => assert!(fast == Some((v, k)) && skip == Some(k)),
        _ => assert!(fast.is_none() && skip.is_none()),
    }
    kani::cover!(matches!(fast, Some((u64::MAX, 10))));
    kani::cover!(matches!(fast, Some((_, 1))));
    kani::cover!(fast.is_none() && b[9] == 2);
    kani::cover!(fast.is_none() && b[9] == 0x80);
}

// Contract (C08): read_varint / skip_varint on ANY byte string of <= 16 bytes (so: the one-byte shortcut,
// the slow path for < 10 bytes, the array path for >= 10 bytes, trailing garbage): Some((v, k)) iff the
// string starts with a well-formed varint of k <= 10 bytes (k <= len) whose value is v; None iff there is
// no terminator within the first 10 bytes / within the input, or the 10th byte is >= 2. skip_varint
// returns exactly the k of read_varint. skip_varint_slow (precondition len < 10) agrees. Never panics.
// @unit name=read_varint_def props=C08 kind=bounded bound=input<=16_bytes fns=read_varint,read_varint_array,read_varint_slow,skip_varint,skip_varint_array,skip_varint_slow timeout=480 mem=3
#[kani::proof]
#[kani::unwind(12)]
fn read_varint_def() {
    let (a, n) = any_input::<16>();
    let got = read_varint(&a[..n]);
    let skipped = skip_varint(&a[..n]);
    match spec_varint(&a, n) {
        Varint::Value(v, k) => {
            assert!(got == Some((v, k)) && k <= n && k <= 10);
            assert!(skipped == Some(k));
        }
        _ => assert!(got.is_none() && skipped.is_none()),
    }
    if n < 10 {
        assert!(skip_varint_slow(&a[..n]) == skipped);
        assert!(read_varint_slow(&a[..n]) == got);
    }
    kani::cover!(matches!(got, Some((_, 10))) && n == 16);
    kani::cover!(matches!(got, Some((_, 9))) && n == 9);
    kani::cover!(matches!(got, Some((_, 1))) && n == 12);
    kani::cover!(got.is_none() && n == 9);
    kani::cover!(got.is_none() && n == 0);
    kani::cover!(got.is_none() && n >= 10);
}

// Contract (C17), reader half of the Avro long/int round trip. (The writer half — write_long(x) emits
// exactly spec_encode(zigzag(x)) — is unit arrow-avro.writer.encoder.avro_write_long_canonical; the two
// modules are private to different parents, so the composition decode(encode(x)) = x is made through the
// shared byte-level specification.) For EVERY i64 x: both readers decode the canonical encoding of x
// (1..=10 bytes) back to x and consume every byte: VLQDecoder::long = Ok(Some(x)); read_varint = the
// zig-zag image with the full length; every proper prefix is "incomplete" (Ok(None) / None), never a value.
// Stub: alloc::fmt::format.
// @unit name=avro_long_decode_canonical props=C17 kind=complete fns=VLQDecoder::long,read_varint timeout=480 mem=3
#[kani::proof]
#[kani::unwind(12)]
#[kani::stub(alloc::fmt::format, stub_format)]
fn avro_long_decode_canonical() {
    let x: i64 = kani::any();
    // zig-zag image by its arithmetic definition: 2x for x >= 0, -2x - 1 for x < 0
    let zz = (if x >= 0 { 2 * x as i128 } else { -2 * (x as i128) - 1 }) as u64;
    let (enc, len) = spec_encode(zz);
    assert!(len >= 1 && len <= 10);
    let mut d = VLQDecoder::default();
    let (t, v, u) = feed(&mut d, &enc, 0, len);
    assert!(t == 1 && v == x && u == len);
    assert!(read_varint(&enc[..len]) == Some((zz, len)));
    // a truncated encoding is never taken for a value
    let cut: usize = kani::any();
    kani::assume(cut < len);
    let mut d2 = VLQDecoder::default();
    let (t2, _, u2) = feed(&mut d2, &enc, 0, cut);
    assert!(t2 == 0 && u2 == cut);
    assert!(read_varint(&enc[..cut]).is_none());
    kani::cover!(x == i64::MIN && len == 10);
    kani::cover!(x == i64::MAX && len == 10);
    kani::cover!(x == -1 && len == 1);
    kani::cover!(x == 64 && len == 2);
    kani::cover!(x as i32 as i64 == x && len == 5); // an Avro int at its longest
}
