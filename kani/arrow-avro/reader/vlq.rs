// Kani contract harnesses for /repo/arrow-avro/src/reader/vlq.rs (child module: sees private items via super::)
