// Kani contract harnesses for /repo/arrow-avro/src/writer/encoder.rs (child module: sees private items via super::)
