// Kani contract harnesses for /repo/arrow-avro/src/writer/encoder.rs (child module: sees private items via super::)
use super::*;
#[path = "/verif/kani/support/spec.rs"]
mod spec;
use spec::*;

// C17 writer half of the Avro primitive layer. Sink = fixed `&mut [u8]` (std's Write for slices: copies
// what fits, advances; nothing allocates). Stub: alloc::fmt::format (error text).

/// canonical (shortest) Avro varint of a zig-zag image — same text as in kani/arrow-avro/reader/vlq.rs
fn spec_encode(zz: u64) -> ([u8; 10], usize) {
    let bitlen = 64 - zz.leading_zeros() as usize;
    let len = if zz == 0 { 1 } else { (bitlen + 6) / 7 };
    let mut out = [0u8; 10];
    let mut i = 0;
    while i < len {
        let g = ((zz >> (7 * i)) & 0x7f) as u8;
        out[i] = if i + 1 < len { g | 0x80 } else { g };
        i += 1;
    }
    (out, len)
}
/// zig-zag image by its arithmetic definition: 2x for x >= 0, -2x - 1 for x < 0
fn zigzag(x: i64) -> u64 {
    (if x >= 0 { 2 * x as i128 } else { -2 * (x as i128) - 1 }) as u64
}

// Contract (C17): for EVERY i64 x, write_long(x) into a sink with room writes exactly the canonical
// shortest zig-zag varint of x — 1..=10 bytes, byte i = 7-bit group i of zigzag(x), continuation bit on
// all but the last, no trailing zero group — and nothing else. write_int(x32) = write_long(x32 as i64)
// (1..=5 bytes). With a sink that is too small the call returns Err (C18), never Ok.
// (Reader half: arrow-avro.reader.vlq.avro_long_decode_canonical decodes exactly this byte string back to x.)
// @unit name=avro_write_long_canonical props=C17,C18 kind=complete fns=write_long,write_int timeout=480 mem=3
#[kani::proof]
#[kani::unwind(12)]
#[kani::stub(alloc::fmt::format, stub_format)]
fn avro_write_long_canonical() {
    let as_int: bool = kani::any();
    let x: i64 = if as_int { kani::any::<i32>() as i64 } else { kani::any() };
    let cap: usize = kani::any();
    kani::assume(cap <= 12);
    let mut buf = [0xAAu8; 12];
    let (want, len) = spec_encode(zigzag(x));
    let used;
    let r;
    {
        let mut w: &mut [u8] = &mut buf[..cap];
        r = if as_int { write_int(&mut w, x as i32) } else { write_long(&mut w, x) };
        used = cap - w.len();
    }
    assert!(r.is_ok() == (len <= cap));
    if r.is_ok() {
        assert!(used == len);
        let i: usize = kani::any();
        kani::assume(i < 12);
        assert!(buf[i] == if i < len { want[i] } else { 0xAA });
    }
    assert!(!as_int || len <= 5);
    kani::cover!(r.is_ok() && len == 10 && x == i64::MIN);
    kani::cover!(r.is_ok() && len == 1 && x == -64);
    kani::cover!(r.is_ok() && as_int && len == 5 && x == i32::MAX as i64);
    kani::cover!(r.is_err() && cap == 9);
    std::mem::forget(r);
}

// Contract (C17): write_bool writes the single byte 0 / 1; write_len_prefixed(bytes) writes the canonical
// varint of the length followed by exactly the bytes (payload <= 4 bytes); Err if the sink is too small.
// @unit name=avro_write_bool_len_prefixed props=C17,C18 kind=bounded bound=payload<=4_bytes fns=write_bool,write_len_prefixed timeout=480 mem=3
#[kani::proof]
#[kani::unwind(12)]
#[kani::stub(alloc::fmt::format, stub_format)]
fn avro_write_bool_len_prefixed() {
    let cap: usize = kani::any();
    kani::assume(cap <= 8);
    let mut buf = [0xAAu8; 8];
    if kani::any() {
        let v: bool = kani::any();
        let used;
        let r;
        {
            let mut w: &mut [u8] = &mut buf[..cap];
            r = write_bool(&mut w, v);
            used = cap - w.len();
        }
        assert!(r.is_ok() == (cap >= 1));
        if r.is_ok() {
            assert!(used == 1 && buf[0] == v as u8 && buf[1] == 0xAA);
        }
        kani::cover!(r.is_ok() && v);
        kani::cover!(r.is_err());
        std::mem::forget(r);
    } else {
        let payload: [u8; 4] = kani::any();
        let k: usize = kani::any();
        kani::assume(k <= 4);
        let used;
        let r;
        {
            let mut w: &mut [u8] = &mut buf[..cap];
            r = write_len_prefixed(&mut w, &payload[..k]);
            used = cap - w.len();
        }
        assert!(r.is_ok() == (1 + k <= cap));
        if r.is_ok() {
            assert!(used == 1 + k);
            assert!(buf[0] == 2 * k as u8); // zig-zag of a small non-negative length, one byte
            let i: usize = kani::any();
            kani::assume(i < 7);
            assert!(buf[1 + i] == if i < k { payload[i] } else { 0xAA });
        }
        kani::cover!(r.is_ok() && k == 4);
        kani::cover!(r.is_ok() && k == 0);
        kani::cover!(r.is_err() && cap == k);
        std::mem::forget(r);
    }
}

/// the signed integer denoted by a big-endian two's-complement byte string of <= 16 bytes (empty = 0)
fn sext128(b: &[u8]) -> i128 {
    let mut v: i128 = if !b.is_empty() && b[0] & 0x80 != 0 { -1 } else { 0 };
    let mut i = 0;
    while i < b.len() {
        v = (v << 8) | b[i] as i128;
        i += 1;
    }
    v
}

// Contract (C17) — Kani pair of the Verus proof of the same function. For every big-endian two's-complement
// byte string `be` of <= 16 bytes, r = minimal_twos_complement(be):
//  (i)   r is a SUFFIX of be (same memory, ends where be ends); empty in = empty out, else |r| >= 1;
//  (ii)  r denotes the same signed integer as be (compared as sign-extended 128-bit values);
//  (iii) r is minimal: |r| = 1 or its first byte is not a redundant sign byte (not (r[0] = 0x00 and r[1] < 0x80)
//        and not (r[0] = 0xFF and r[1] >= 0x80)).
// @unit name=minimal_twos_complement_pair props=C17 kind=bounded bound=be<=16_bytes fns=minimal_twos_complement timeout=480 mem=3
#[kani::proof]
#[kani::unwind(18)]
fn minimal_twos_complement_pair() {
    let a: [u8; 16] = kani::any();
    let n: usize = kani::any();
    kani::assume(n <= 16);
    let be = &a[..n];
    let r = minimal_twos_complement(be);
    assert!(r.len() <= n);
    assert!(r.as_ptr() == a[n - r.len()..].as_ptr());
    if n == 0 {
        assert!(r.is_empty());
    } else {
        assert!(r.len() >= 1);
        assert!(sext128(r) == sext128(be));
        if r.len() >= 2 {
            assert!(!(r[0] == 0x00 && r[1] < 0x80));
            assert!(!(r[0] == 0xFF && r[1] >= 0x80));
        }
    }
    kani::cover!(n == 16 && r.len() == 1 && r[0] == 0xFF);
    kani::cover!(n == 16 && r.len() == 16);
    kani::cover!(n == 5 && r.len() == 2 && r[0] == 0x00);
    kani::cover!(n == 5 && r.len() == 2 && r[0] == 0xFF);
    kani::cover!(n == 3 && r.len() == 1 && r[0] == 0x00);
}

/// the signed integer denoted by a big-endian two's-complement byte string of <= 8 bytes (empty = 0)
fn sext64(b: &[u8]) -> i64 {
    let mut v: i64 = if !b.is_empty() && b[0] & 0x80 != 0 { -1 } else { 0 };
    let mut i = 0;
    while i < b.len() {
        v = (v << 8) | b[i] as i64;
        i += 1;
    }
    v
}

// Contract (C17): write_sign_extended(out, src_be, n) for src of <= 8 bytes and 1 <= n <= 8 (an Avro fixed
// has at least one byte; n = 0 is excluded, see REPORT) into a sink of capacity `cap`:
//  Ok  <=> the integer v denoted by src fits n bytes (-2^(8n-1) <= v < 2^(8n-1)) and n <= cap;
//  Ok  => exactly n bytes were written and they denote the same integer v (sign extension / truncation of
//         redundant sign bytes only); bytes behind them are untouched.
//  Err otherwise — a value that does not fit is never truncated silently.
// @unit name=avro_write_sign_extended props=C17,C18 kind=bounded bound=src<=8_bytes_n_1..=8 fns=write_sign_extended timeout=480 mem=3
#[kani::proof]
#[kani::unwind(10)]
#[kani::stub(alloc::fmt::format, stub_format)]
fn avro_write_sign_extended() {
    let s: [u8; 8] = kani::any();
    let len: usize = kani::any();
    kani::assume(len <= 8);
    let n: usize = kani::any();
    kani::assume(n >= 1 && n <= 8);
    let cap: usize = kani::any();
    kani::assume(cap <= 10);
    let mut buf = [0xAAu8; 10];
    let used;
    let r;
    {
        let mut w: &mut [u8] = &mut buf[..cap];
        r = write_sign_extended(&mut w, &s[..len], n);
        used = cap - w.len();
    }
    let v = sext64(&s[..len]) as i128;
    let half = 1i128 << (8 * n - 1);
    let fits = v >= -half && v < half;
    assert!(r.is_ok() == (fits && n <= cap));
    if r.is_ok() {
        assert!(used == n);
        assert!(sext64(&buf[..n]) as i128 == v);
        let i: usize = kani::any();
        kani::assume(i >= n && i < 10);
        assert!(buf[i] == 0xAA);
    }
    kani::cover!(r.is_ok() && len == 2 && n == 8 && v < 0); // sign extension with 0xFF
    kani::cover!(r.is_ok() && len == 8 && n == 1 && v == -128); // truncation of redundant sign bytes
    kani::cover!(r.is_ok() && len == n && n == 3);
    kani::cover!(r.is_ok() && len == 0 && n == 2);
    kani::cover!(r.is_err() && fits); // sink too small
    kani::cover!(r.is_err() && !fits && len == 2 && n == 1 && v == 128); // 0x0080 needs two bytes
    std::mem::forget(r);
}

// Contract (C17): the 64-byte pad chunking: a 1- or 2-byte source sign-extended to n in 60..=70 bytes
// (crosses the 64-byte pad chunk) writes exactly n bytes: n - len pad bytes equal to the sign byte, then src.
// @unit name=avro_write_sign_extended_pad64 props=C17 kind=bounded bound=src<=2_bytes_n_60..=70 fns=write_sign_extended tier=thorough timeout=900 mem=4
#[kani::proof]
#[kani::unwind(4)]
#[kani::stub(alloc::fmt::format, stub_format)]
fn avro_write_sign_extended_pad64() {
    let s: [u8; 2] = kani::any();
    let len: usize = kani::any();
    kani::assume(len >= 1 && len <= 2);
    let n: usize = kani::any();
    kani::assume(n >= 60 && n <= 70);
    let mut buf = [0xAAu8; 72];
    let used;
    let r;
    {
        let mut w: &mut [u8] = &mut buf[..];
        r = write_sign_extended(&mut w, &s[..len], n);
        used = 72 - w.len();
    }
    assert!(r.is_ok() && used == n);
    let sign = if s[0] & 0x80 != 0 { 0xFF } else { 0x00 };
    let i: usize = kani::any();
    kani::assume(i < 72);
    let want = if i < n - len { sign } else if i < n { s[i - (n - len)] } else { 0xAA };
    assert!(buf[i] == want);
    kani::cover!(n == 64 + len);
    kani::cover!(n == 70 && sign == 0xFF && len == 2);
    kani::cover!(n == 60);
    std::mem::forget(r);
}
