// Kani contract harnesses for /repo/parquet/src/file/statistics.rs (child module: sees private items via super::)
