// Kani contract harnesses for /repo/parquet/src/file/metadata/footer_tail.rs (child module: sees private items via super::)
use super::*;
#[path = "/verif/kani/support/spec.rs"]
mod spec;
use spec::*;

// Contract (C08, C18): for every 8-byte tail, FooterTail::try_new returns Ok exactly when bytes 4..8 are
// the magic "PAR1" or "PARE" (a file cut anywhere else, or garbage, is rejected — never a panic); on Ok
// metadata_length() is the little-endian u32 in bytes 0..4 (no truncation or sign issue) and
// is_encrypted_footer() <=> the magic is "PARE". TryFrom<[u8; 8]> agrees with try_new.
// Stub: alloc::fmt::format (error text is not part of the contract).
// @unit name=footer_tail_try_new props=C08,C18 kind=complete fns=FooterTail::try_new,FooterTail::metadata_length,FooterTail::is_encrypted_footer,TryFrom<[u8;8]>::try_from
#[kani::proof]
#[kani::stub(alloc::fmt::format, stub_format)]
fn footer_tail_try_new() {
    let b: [u8; 8] = kani::any();
    let par1 = b[4] == 0x50 && b[5] == 0x41 && b[6] == 0x52 && b[7] == 0x31;
    let pare = b[4] == 0x50 && b[5] == 0x41 && b[6] == 0x52 && b[7] == 0x45;
    let r = FooterTail::try_new(&b);
    assert!(r.is_ok() == (par1 || pare));
    if let Ok(t) = &r {
        let want = (b[0] as usize) | (b[1] as usize) << 8 | (b[2] as usize) << 16 | (b[3] as usize) << 24;
        assert!(t.metadata_length() == want);
        assert!(t.is_encrypted_footer() == pare);
        let t2 = FooterTail::try_from(b);
        assert!(t2.is_ok() && t2.as_ref().unwrap() == t);
        std::mem::forget(t2);
    }
    kani::cover!(par1 && b[3] == 0xff);
    kani::cover!(pare);
    kani::cover!(r.is_err() && b[4] == 0x50 && b[5] == 0x41 && b[6] == 0x52);
    std::mem::forget(r);
}

// Contract (C08, C18): TryFrom<&[u8]> accepts exactly the 8-byte slices that try_new accepts: any other
// length (a truncated tail) is an error, never a panic.
// @unit name=footer_tail_try_from_slice props=C08,C18 kind=bounded bound=slice<=12_bytes fns=TryFrom<&[u8]>::try_from
#[kani::proof]
#[kani::stub(alloc::fmt::format, stub_format)]
fn footer_tail_try_from_slice() {
    let a: [u8; 12] = kani::any();
    let n: usize = kani::any();
    kani::assume(n <= 12);
    let r = FooterTail::try_from(&a[..n]);
    let magic_ok = a[4] == 0x50 && a[5] == 0x41 && a[6] == 0x52 && (a[7] == 0x31 || a[7] == 0x45);
    assert!(r.is_ok() == (n == 8 && magic_ok));
    if let Ok(t) = &r {
        assert!(t.metadata_length() == u32::from_le_bytes([a[0], a[1], a[2], a[3]]) as usize);
        assert!(t.is_encrypted_footer() == (a[7] == 0x45));
    }
    kani::cover!(r.is_ok());
    kani::cover!(r.is_err() && n == 7 && magic_ok);
    kani::cover!(r.is_err() && n == 9 && magic_ok);
    std::mem::forget(r);
}
