// Kani contract harnesses for /repo/parquet/src/file/metadata/footer_tail.rs (child module: sees private items via super::)
