// Kani contract harnesses for /repo/parquet/src/file/writer.rs (child module: sees private items via super::)
use super::*;
#[path = "/verif/kani/support/spec.rs"]
mod spec;
#[allow(unused_imports)]
use spec::*;

// ---------------------------------------------------------------------------------------------
// C18: TrackedWrite<W> byte accounting under sink faults.
// W = NONDETERMINISTIC sink: every `write(buf)` either fails (solver's choice) or accepts a
// solver-chosen prefix of k <= buf.len() bytes (k = 0 allowed), which it records; `flush` fails or
// succeeds by the solver's choice. Errors are ErrorKind::Other (BufWriter retries Interrupted).
// TrackedWrite is built both by TrackedWrite::new (8 KiB BufWriter: small writes are buffered) and,
// through the private fields, around BufWriter::with_capacity(2, _) so that the same TrackedWrite
// methods also run on the direct-to-sink path of BufWriter with inputs of <= 4 bytes.
// ---------------------------------------------------------------------------------------------

struct Sink {
    got: [u8; 16],
    accepted: usize,
    write_errs: usize,
    flush_errs: usize,
}
impl Sink {
    fn new() -> Self {
        Sink { got: [0; 16], accepted: 0, write_errs: 0, flush_errs: 0 }
    }
}
impl Write for Sink {
    fn write(&mut self, buf: &[u8]) -> std::io::Result<usize> {
        if kani::any() {
            self.write_errs += 1;
            return Err(std::io::Error::from(std::io::ErrorKind::Other));
        }
        let k: usize = kani::any();
        kani::assume(k <= buf.len() && self.accepted + k <= 16);
        let mut i = 0;
        while i < k {
            self.got[self.accepted + i] = buf[i];
            i += 1;
        }
        self.accepted += k;
        Ok(k)
    }
    fn flush(&mut self) -> std::io::Result<()> {
        if kani::any() {
            self.flush_errs += 1;
            return Err(std::io::Error::from(std::io::ErrorKind::Other));
        }
        Ok(())
    }
}

fn any_tracked(b0: usize) -> TrackedWrite<Sink> {
    if kani::any() {
        let mut t = TrackedWrite::new(Sink::new());
        t.bytes_written = b0;
        t
    } else {
        TrackedWrite { inner: BufWriter::with_capacity(2, Sink::new()), bytes_written: b0 }
    }
}

// Contract (C18): ONE call on a TrackedWrite whose counter is any b0 (< 2^60) over the nondeterministic
// sink, data of <= 4 arbitrary bytes:
//  write(buf)     Ok(k)  => k <= |buf| and bytes_written = b0 + k;  Err => bytes_written = b0 and the sink failed
//  write_all(buf) Ok     => bytes_written = b0 + |buf|;             Err => bytes_written = b0 (never counts bytes
//                 the sink did not take) and the sink failed or accepted 0 bytes (WriteZero)
//  flush()        never changes the counter; Ok => every counted byte of this call sequence reached the sink
//  in every case: bytes received by the sink <= bytes handed in, and they are a prefix of them.
// @unit name=tracked_write_one_call props=C18 kind=bounded bound=one_call_data<=4_bytes fns=TrackedWrite::write,TrackedWrite::write_all,TrackedWrite::flush,TrackedWrite::bytes_written,TrackedWrite::new,TrackedWrite::inner timeout=480 mem=3
#[kani::proof]
#[kani::unwind(7)]
fn tracked_write_one_call() {
    let b0: usize = kani::any();
    kani::assume(b0 < 1 << 60);
    let mut tw = any_tracked(b0);
    let data: [u8; 4] = kani::any();
    let len: usize = kani::any();
    kani::assume(len <= 4);
    let op: u8 = kani::any();
    let mut counted = 0;
    match op {
        0 => {
            let r = tw.write(&data[..len]);
            match &r {
                Ok(k) => {
                    assert!(*k <= len && tw.bytes_written() == b0 + *k);
                    counted = *k;
                }
                Err(_) => {
                    assert!(tw.bytes_written() == b0);
                    assert!(tw.inner().write_errs > 0);
                }
            }
            kani::cover!(matches!(r, Ok(k) if k == 4));
            kani::cover!(matches!(r, Ok(k) if k < len)); // direct path, short write
            kani::cover!(r.is_err());
            std::mem::forget(r);
        }
        1 => {
            let r = tw.write_all(&data[..len]);
            if r.is_ok() {
                assert!(tw.bytes_written() == b0 + len);
                counted = len;
            } else {
                assert!(tw.bytes_written() == b0);
            }
            kani::cover!(r.is_ok() && len == 4);
            kani::cover!(r.is_err() && tw.inner().accepted > 0); // partial data reached the sink, not counted
            kani::cover!(r.is_err() && tw.inner().write_errs == 0); // WriteZero
            std::mem::forget(r);
        }
        _ => {
            let r = tw.flush();
            assert!(tw.bytes_written() == b0);
            kani::cover!(r.is_ok());
            kani::cover!(r.is_err());
            std::mem::forget(r);
        }
    }
    // sink side: never more than handed in, and a prefix of it
    let s = tw.inner();
    assert!(s.accepted <= len);
    let i: usize = kani::any();
    kani::assume(i < s.accepted);
    assert!(s.got[i] == data[i]);
    // a successful flush afterwards means the sink holds every counted byte
    let r2 = tw.flush();
    assert!(tw.bytes_written() == b0 + counted);
    if r2.is_ok() {
        assert!(tw.inner().accepted == counted || op == 1 && counted == 0);
        assert!(tw.inner().accepted >= counted);
    }
    kani::cover!(r2.is_ok() && counted == 3);
    kani::cover!(r2.is_err() && counted == 3);
    std::mem::forget(r2);
    std::mem::forget(tw);
}

// Contract (C18): two write / write_all calls (each <= 2 arbitrary bytes) followed by flush, from
// TrackedWrite::new or the capacity-2 variant, with the sink failing or short-writing at any point:
// as long as no call has returned Err, bytes_written equals the number of bytes the calls reported as
// accepted, the sink has received a PREFIX of exactly that byte sequence, and if the final flush returns
// Ok the sink has received all of it (a "successful" writer has handed every counted byte to the sink).
// After the first Err the counter still never exceeds the bytes handed in.
// (three calls ran out of memory at 10 GB: BufWriter's flush loop is inlined once per call and error path)
// NOT CONFIRMED: not run yet (the three-call form exceeded 10 GB)
// @unit name=tracked_write_two_calls props=C18 kind=bounded bound=2_calls_of<=2_bytes fns=TrackedWrite::write,TrackedWrite::write_all,TrackedWrite::flush,TrackedWrite::bytes_written tier=thorough timeout=900 mem=8
#[kani::proof]
#[kani::unwind(7)]
fn tracked_write_two_calls() {
    let mut tw = any_tracked(0);
    let mut stream = [0u8; 4]; // bytes reported as accepted, in order
    let mut total = 0usize;
    let mut handed = 0usize;
    let mut failed = false;
    let mut call = 0;
    while call < 2 {
        let data: [u8; 2] = kani::any();
        let len: usize = kani::any();
        kani::assume(len <= 2);
        handed += len;
        if kani::any() {
            let r = tw.write(&data[..len]);
            match &r {
                Ok(k) => {
                    let mut i = 0;
                    while i < *k {
                        stream[total + i] = data[i];
                        i += 1;
                    }
                    total += *k;
                }
                Err(_) => failed = true,
            }
            std::mem::forget(r);
        } else {
            let r = tw.write_all(&data[..len]);
            if r.is_ok() {
                let mut i = 0;
                while i < len {
                    stream[total + i] = data[i];
                    i += 1;
                }
                total += len;
            } else {
                failed = true;
            }
            std::mem::forget(r);
        }
        assert!(tw.bytes_written() == total);
        assert!(tw.bytes_written() <= handed);
        if !failed {
            let s = tw.inner();
            assert!(s.accepted <= total);
            let i: usize = kani::any();
            kani::assume(i < s.accepted);
            assert!(s.got[i] == stream[i]);
        }
        call += 1;
    }
    let r = tw.flush();
    assert!(tw.bytes_written() == total);
    if !failed && r.is_ok() {
        let s = tw.inner();
        assert!(s.accepted == total);
        let i: usize = kani::any();
        kani::assume(i < total);
        assert!(s.got[i] == stream[i]);
    }
    kani::cover!(!failed && r.is_ok() && total == 4);
    kani::cover!(!failed && r.is_err() && total == 3);
    kani::cover!(failed && total == 1);
    kani::cover!(!failed && r.is_ok() && total == 2 && handed == 4); // short writes on the direct path
    std::mem::forget(r);
    std::mem::forget(tw);
}
