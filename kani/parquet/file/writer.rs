// Kani contract harnesses for /repo/parquet/src/file/writer.rs (child module: sees private items via super::)
