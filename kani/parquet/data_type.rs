// Kani contract harnesses for /repo/parquet/src/data_type.rs (child module: sees private items via super::)
