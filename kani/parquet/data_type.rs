// Kani contract harnesses for /repo/parquet/src/data_type.rs (child module: sees private items via super::)
use super::*;
use crate::util::bit_util::FromBytes;
#[path = "/verif/kani/support/spec.rs"]
mod spec;
use spec::*;

// Contract (C05): for every value x of a fixed-width physical/native type, AsBytes::as_bytes(x) is its
// little-endian byte string of exactly size_of::<T>() bytes (the PLAIN encoding), and both decoders
// invert it bit-exactly: FromBytes::from_le_bytes(bytes) = x and try_from_le_slice(bytes ++ extra) = Ok(x)
// (extra trailing bytes are ignored: "may be called with zero-padded values"), while a slice shorter than
// the type is Err, never a panic. Floats are compared by bit pattern (NaN payloads survive).
// Stub: alloc::fmt::format.
macro_rules! le_roundtrip {
    ($name:ident, $t:ty, $n:expr, $bits:ty) => {
        #[kani::proof]
        #[kani::stub(alloc::fmt::format, stub_format)]
        fn $name() {
            let raw: [u8; $n] = kani::any();
            let x = <$t>::from_ne_bytes(raw);
            let b = x.as_bytes();
            assert!(b.len() == $n);
            // little-endian layout, stated on the integer image: byte i = bits [8i, 8i+8)
            let img = <$bits>::from_ne_bytes(raw);
            let i: usize = kani::any();
            kani::assume(i < $n);
            assert!(b[i] == ((img >> (8 * i)) & 0xff) as u8);
            let mut arr = [0u8; $n];
            arr.copy_from_slice(b);
            let y = <$t as FromBytes>::from_le_bytes(arr);
            assert!(y.to_ne_bytes() == raw);
            // slice decoder: long enough (with arbitrary padding) -> same value; too short -> Err
            let mut padded = [0u8; $n + 3];
            let pad: [u8; 3] = kani::any();
            padded[..$n].copy_from_slice(b);
            padded[$n..].copy_from_slice(&pad);
            let len: usize = kani::any();
            kani::assume(len <= $n + 3);
            let r = <$t as FromBytes>::try_from_le_slice(&padded[..len]);
            assert!(r.is_ok() == (len >= $n));
            if let Ok(z) = &r {
                assert!(z.to_ne_bytes() == raw);
            }
            kani::cover!(r.is_ok() && len == $n + 3);
            kani::cover!(r.is_err() && len + 1 == $n);
            kani::cover!(b[$n - 1] == 0x80);
            std::mem::forget(r);
        }
    };
}
// @unit name=le_roundtrip_i8 props=C05 kind=complete fns=AsBytes<i8>::as_bytes,FromBytes<i8>::from_le_bytes,FromBytes<i8>::try_from_le_slice
le_roundtrip!(le_roundtrip_i8, i8, 1, u8);
// @unit name=le_roundtrip_u8 props=C05 kind=complete fns=AsBytes<u8>::as_bytes,FromBytes<u8>::from_le_bytes,FromBytes<u8>::try_from_le_slice
le_roundtrip!(le_roundtrip_u8, u8, 1, u8);
// @unit name=le_roundtrip_i16 props=C05 kind=complete fns=AsBytes<i16>::as_bytes,FromBytes<i16>::from_le_bytes,FromBytes<i16>::try_from_le_slice
le_roundtrip!(le_roundtrip_i16, i16, 2, u16);
// @unit name=le_roundtrip_u16 props=C05 kind=complete fns=AsBytes<u16>::as_bytes,FromBytes<u16>::from_le_bytes,FromBytes<u16>::try_from_le_slice
le_roundtrip!(le_roundtrip_u16, u16, 2, u16);
// @unit name=le_roundtrip_i32 props=C05 kind=complete fns=AsBytes<i32>::as_bytes,FromBytes<i32>::from_le_bytes,FromBytes<i32>::try_from_le_slice
le_roundtrip!(le_roundtrip_i32, i32, 4, u32);
// @unit name=le_roundtrip_u32 props=C05 kind=complete fns=AsBytes<u32>::as_bytes,FromBytes<u32>::from_le_bytes,FromBytes<u32>::try_from_le_slice
le_roundtrip!(le_roundtrip_u32, u32, 4, u32);
// @unit name=le_roundtrip_i64 props=C05 kind=complete fns=AsBytes<i64>::as_bytes,FromBytes<i64>::from_le_bytes,FromBytes<i64>::try_from_le_slice
le_roundtrip!(le_roundtrip_i64, i64, 8, u64);
// @unit name=le_roundtrip_u64 props=C05 kind=complete fns=AsBytes<u64>::as_bytes,FromBytes<u64>::from_le_bytes,FromBytes<u64>::try_from_le_slice
le_roundtrip!(le_roundtrip_u64, u64, 8, u64);
// @unit name=le_roundtrip_f32 props=C05 kind=complete fns=AsBytes<f32>::as_bytes,FromBytes<f32>::from_le_bytes,FromBytes<f32>::try_from_le_slice
le_roundtrip!(le_roundtrip_f32, f32, 4, u32);
// @unit name=le_roundtrip_f64 props=C05 kind=complete fns=AsBytes<f64>::as_bytes,FromBytes<f64>::from_le_bytes,FromBytes<f64>::try_from_le_slice
le_roundtrip!(le_roundtrip_f64, f64, 8, u64);

// Contract (C05): bool: as_bytes is the single byte 0/1; from_le_bytes / try_from_le_slice decode any
// non-zero byte as true (PLAIN booleans are bit-packed elsewhere; this is the byte form) and invert as_bytes.
// @unit name=le_roundtrip_bool props=C05 kind=complete fns=AsBytes<bool>::as_bytes,FromBytes<bool>::from_le_bytes,FromBytes<bool>::try_from_le_slice
#[kani::proof]
#[kani::stub(alloc::fmt::format, stub_format)]
fn le_roundtrip_bool() {
    let x: bool = kani::any();
    let b = x.as_bytes();
    assert!(b.len() == 1 && b[0] == x as u8);
    assert!(<bool as FromBytes>::from_le_bytes([b[0]]) == x);
    let raw: [u8; 2] = kani::any();
    let len: usize = kani::any();
    kani::assume(len <= 2);
    let r = <bool as FromBytes>::try_from_le_slice(&raw[..len]);
    assert!(r.is_ok() == (len >= 1));
    if let Ok(v) = &r {
        assert!(*v == (raw[0] != 0));
    }
    kani::cover!(matches!(r, Ok(true)) && raw[0] == 2);
    kani::cover!(r.is_err());
    std::mem::forget(r);
}

// Contract (C05): Int96 is three little-endian u32 words [nanos_lo, nanos_hi, julian_day]:
// set_data/data round-trip; as_bytes is the 12-byte little-endian image; from_le_bytes and
// try_from_le_slice invert it (Err on fewer than 12 bytes, extra bytes ignored).
// @unit name=int96_bytes_roundtrip props=C05 kind=complete fns=Int96::new,Int96::set_data,Int96::data,AsBytes<Int96>::as_bytes,FromBytes<Int96>::from_le_bytes,FromBytes<Int96>::try_from_le_slice
#[kani::proof]
#[kani::stub(alloc::fmt::format, stub_format)]
fn int96_bytes_roundtrip() {
    let w: [u32; 3] = kani::any();
    let mut x = Int96::new();
    assert!(x.data()[0] == 0 && x.data()[1] == 0 && x.data()[2] == 0 && x.data().len() == 3);
    x.set_data(w[0], w[1], w[2]);
    assert!(x.data()[0] == w[0] && x.data()[1] == w[1] && x.data()[2] == w[2]);
    let b = x.as_bytes();
    assert!(b.len() == 12);
    let i: usize = kani::any();
    kani::assume(i < 12);
    assert!(b[i] == ((w[i / 4] >> (8 * (i % 4))) & 0xff) as u8);
    let mut arr = [0u8; 12];
    arr.copy_from_slice(b);
    let y = <Int96 as FromBytes>::from_le_bytes(arr);
    assert!(y == x && y.data()[0] == w[0] && y.data()[1] == w[1] && y.data()[2] == w[2]);
    let mut padded = [0u8; 14];
    padded[..12].copy_from_slice(b);
    padded[12] = kani::any();
    padded[13] = kani::any();
    let len: usize = kani::any();
    kani::assume(len <= 14);
    let r = <Int96 as FromBytes>::try_from_le_slice(&padded[..len]);
    assert!(r.is_ok() == (len >= 12));
    if let Ok(z) = &r {
        assert!(*z == x);
    }
    kani::cover!(r.is_ok() && len == 14);
    kani::cover!(r.is_err() && len == 11);
    std::mem::forget(r);
}

const J: i128 = 2_440_588; // Julian day number of 1970-01-01 (Parquet INT96 timestamp convention)

// Contract (C05): Int96 timestamp conversions are exact modulo 2^64 ("will wrap around on overflow"):
// with day = word 2 as i32 and nanos = (word1 << 32 | word0) as i64,
//   to_nanos  = (day - J) * 86_400_000_000_000 + nanos                (mod 2^64)
//   to_micros = (day - J) * 86_400_000_000 + trunc(nanos / 1_000)     (mod 2^64)
//   to_millis = (day - J) * 86_400_000 + trunc(nanos / 1_000_000)     (mod 2^64)
//   to_seconds= (day - J) * 86_400 + trunc(nanos / 1_000_000_000)     (mod 2^64)
// computed on the spec side in 128-bit arithmetic; the truncated quotient q is characterised without a
// division: |nanos - q*d| < d and the remainder has the sign of nanos. No panic for any 96-bit pattern.
fn int96_to_unit(d: i64, sel: u8) {
    let w: [u32; 3] = kani::any();
    let mut x = Int96::new();
    x.set_data(w[0], w[1], w[2]);
    let day = w[2] as i32 as i128;
    let nanos = (((w[1] as u64) << 32) | w[0] as u64) as i64;
    let per_day = 86_400_000_000_000i128 / d as i128;
    let got = match sel {
        0 => x.to_nanos(),
        1 => x.to_micros(),
        2 => x.to_millis(),
        _ => x.to_seconds(),
    };
    // q := got - (day - J) * per_day  (mod 2^64, read as a signed 64-bit number): the sub-day part
    let q = ((got as i128) - (day - J) * per_day) as i64;
    // q = trunc(nanos / d)  <=>  q*d does not overflow, |nanos - q*d| < d, remainder has the sign of nanos
    let qd = q.checked_mul(d);
    assert!(qd.is_some());
    let rem = (nanos as i128) - (qd.unwrap() as i128);
    assert!(rem > -(d as i128) && rem < d as i128);
    assert!(rem == 0 || (rem > 0) == (nanos > 0));
    kani::cover!(nanos < 0 && (d == 1 || rem != 0));
    kani::cover!(day == J && nanos == d && got == 1);
    kani::cover!(day == i32::MIN as i128);
    kani::cover!(day == J + 1 && nanos == 0 && got as i128 == per_day);
}
// @unit name=int96_to_nanos_def props=C05 kind=complete fns=Int96::to_nanos,Int96::data_as_days_and_nanos,Int96::get_days,Int96::get_nanos
#[kani::proof]
fn int96_to_nanos_def() {
    int96_to_unit(1, 0)
}
// @unit name=int96_to_micros_def props=C05 kind=complete fns=Int96::to_micros tier=thorough timeout=900 mem=2
#[kani::proof]
fn int96_to_micros_def() {
    int96_to_unit(1_000, 1)
}
// (64-bit signed division by the constant 10^6: pure SAT hardness, 40 MB; not confirmed under load)
// NOT CONFIRMED: 64-bit division by a constant: > 600 s, 50 MB, pure SAT hardness
// @unit name=int96_to_millis_def props=C05 kind=complete fns=Int96::to_millis tier=thorough timeout=900 mem=2
#[kani::proof]
fn int96_to_millis_def() {
    int96_to_unit(1_000_000, 2)
}
// (64-bit signed division by the constant 10^9: pure SAT hardness, 40 MB; not confirmed under load)
// NOT CONFIRMED: 64-bit division by a constant: > 600 s, 50 MB, pure SAT hardness
// @unit name=int96_to_seconds_def props=C05 kind=complete fns=Int96::to_seconds tier=thorough timeout=900 mem=2
#[kani::proof]
fn int96_to_seconds_def() {
    int96_to_unit(1_000_000_000, 3)
}

// Contract (C05): ByteArray / FixedLenByteArray: FromBytes::try_from_le_slice(s) and from_le_bytes(vec)
// hold exactly the bytes given (length and contents), and AsBytes returns them again. Bound: 4 bytes
// (allocation size concrete: grid rule); Bytes-bearing values are forgotten.
// @unit name=byte_array_roundtrip props=C05 kind=bounded bound=payload=4_bytes fns=FromBytes<ByteArray>::try_from_le_slice,FromBytes<ByteArray>::from_le_bytes,FromBytes<FixedLenByteArray>::try_from_le_slice,AsBytes<ByteArray>::as_bytes,AsBytes<FixedLenByteArray>::as_bytes timeout=480 mem=3
#[kani::proof]
#[kani::unwind(6)]
#[kani::stub(alloc::fmt::format, stub_format)]
fn byte_array_roundtrip() {
    let s: [u8; 4] = kani::any();
    let i: usize = kani::any();
    kani::assume(i < 4);
    let a = <ByteArray as FromBytes>::try_from_le_slice(&s);
    match &a {
        Ok(v) => assert!(v.len() == 4 && v.data()[i] == s[i] && v.as_bytes()[i] == s[i] && v.as_bytes().len() == 4),
        Err(_) => assert!(false),
    }
    std::mem::forget(a);
    let b = <ByteArray as FromBytes>::from_le_bytes(s.to_vec());
    assert!(b.len() == 4 && b.data()[i] == s[i]);
    std::mem::forget(b);
    let f = <FixedLenByteArray as FromBytes>::try_from_le_slice(&s);
    match &f {
        Ok(v) => assert!(v.len() == 4 && v.data()[i] == s[i] && v.as_bytes()[i] == s[i]),
        Err(_) => assert!(false),
    }
    kani::cover!(s[3] == 0xff);
    std::mem::forget(f);
}
