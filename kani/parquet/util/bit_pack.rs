// Kani contract harnesses for /repo/parquet/src/util/bit_pack.rs (child module: sees private items via super::)
use super::*;
#[path = "/verif/kani/support/spec.rs"]
mod spec;
use spec::*;

// Contract (C05): unpackN(input, output, W) for an input of exactly the required length W*N/8 bytes
// (precondition from the function's own `assert!(input.len() >= ...)`; the caller BitReader::get_batch
// guarantees it) and arbitrary contents: output[i] is the i-th W-bit group of the little-endian bit stream —
// bit j of output[i] = stream bit i*W + j for j < W, and 0 for j >= W — i.e. exactly what the naive
// one-bit-at-a-time extraction gives; every output element is written (previous contents are arbitrary).
// One harness per width W (the width is a const generic in the code: each W is a different straight-line
// function reached through the dispatch table); symbolic output index and bit index.
// (A single harness with a symbolic width over the whole dispatch table did not finish in 900 s for any N.)
// NOT CONFIRMED: the per-width harnesses below compile but have not been run yet.
macro_rules! unpack_contract {
    ($name:ident, $f:ident, $t:ty, $bits:expr, $w:expr) => {
        #[kani::proof]
        #[kani::unwind(66)]
        fn $name() {
            const BYTES: usize = $w * $bits / 8;
            let input: [u8; BYTES] = kani::any();
            let mut out: [$t; $bits] = kani::any();
            $f(&input, &mut out, $w);
            let i: usize = kani::any();
            let j: usize = kani::any();
            kani::assume(i < $bits && j < $bits);
            let got = (out[i] >> j) & 1 == 1;
            assert!(got == (j < $w && bit(&input, i * $w + j)));
            kani::cover!($w == 0 || got);
            kani::cover!(i == $bits - 1 && (j + 1 == $w || $w == 0));
            kani::cover!(i == 1 && j == 0); // for widths that do not divide N this value straddles two words
        }
    };
}
// @unit name=unpack8_w0 props=C05 kind=bounded bound=one_width_per_harness fns=unpack8 tier=thorough timeout=900 mem=3
unpack_contract!(unpack8_w0, unpack8, u8, 8, 0);
// @unit name=unpack8_w1 props=C05 kind=bounded bound=one_width_per_harness fns=unpack8 tier=thorough timeout=900 mem=3
unpack_contract!(unpack8_w1, unpack8, u8, 8, 1);
// @unit name=unpack8_w2 props=C05 kind=bounded bound=one_width_per_harness fns=unpack8 tier=thorough timeout=900 mem=3
unpack_contract!(unpack8_w2, unpack8, u8, 8, 2);
// @unit name=unpack8_w3 props=C05 kind=bounded bound=one_width_per_harness fns=unpack8 tier=thorough timeout=900 mem=3
unpack_contract!(unpack8_w3, unpack8, u8, 8, 3);
// @unit name=unpack8_w4 props=C05 kind=bounded bound=one_width_per_harness fns=unpack8 tier=thorough timeout=900 mem=3
unpack_contract!(unpack8_w4, unpack8, u8, 8, 4);
// @unit name=unpack8_w5 props=C05 kind=bounded bound=one_width_per_harness fns=unpack8 tier=thorough timeout=900 mem=3
unpack_contract!(unpack8_w5, unpack8, u8, 8, 5);
// @unit name=unpack8_w6 props=C05 kind=bounded bound=one_width_per_harness fns=unpack8 tier=thorough timeout=900 mem=3
unpack_contract!(unpack8_w6, unpack8, u8, 8, 6);
// @unit name=unpack8_w7 props=C05 kind=bounded bound=one_width_per_harness fns=unpack8 tier=thorough timeout=900 mem=3
unpack_contract!(unpack8_w7, unpack8, u8, 8, 7);
// @unit name=unpack8_w8 props=C05 kind=bounded bound=one_width_per_harness fns=unpack8 tier=thorough timeout=900 mem=3
unpack_contract!(unpack8_w8, unpack8, u8, 8, 8);
// @unit name=unpack16_w0 props=C05 kind=bounded bound=one_width_per_harness fns=unpack16 tier=thorough timeout=900 mem=3
unpack_contract!(unpack16_w0, unpack16, u16, 16, 0);
// @unit name=unpack16_w1 props=C05 kind=bounded bound=one_width_per_harness fns=unpack16 tier=thorough timeout=900 mem=3
unpack_contract!(unpack16_w1, unpack16, u16, 16, 1);
// @unit name=unpack16_w5 props=C05 kind=bounded bound=one_width_per_harness fns=unpack16 tier=thorough timeout=900 mem=3
unpack_contract!(unpack16_w5, unpack16, u16, 16, 5);
// @unit name=unpack16_w8 props=C05 kind=bounded bound=one_width_per_harness fns=unpack16 tier=thorough timeout=900 mem=3
unpack_contract!(unpack16_w8, unpack16, u16, 16, 8);
// @unit name=unpack16_w15 props=C05 kind=bounded bound=one_width_per_harness fns=unpack16 tier=thorough timeout=900 mem=3
unpack_contract!(unpack16_w15, unpack16, u16, 16, 15);
// @unit name=unpack16_w16 props=C05 kind=bounded bound=one_width_per_harness fns=unpack16 tier=thorough timeout=900 mem=3
unpack_contract!(unpack16_w16, unpack16, u16, 16, 16);
// @unit name=unpack32_w0 props=C05 kind=bounded bound=one_width_per_harness fns=unpack32 tier=thorough timeout=900 mem=3
unpack_contract!(unpack32_w0, unpack32, u32, 32, 0);
// @unit name=unpack32_w1 props=C05 kind=bounded bound=one_width_per_harness fns=unpack32 tier=thorough timeout=900 mem=3
unpack_contract!(unpack32_w1, unpack32, u32, 32, 1);
// @unit name=unpack32_w7 props=C05 kind=bounded bound=one_width_per_harness fns=unpack32 tier=thorough timeout=900 mem=3
unpack_contract!(unpack32_w7, unpack32, u32, 32, 7);
// @unit name=unpack32_w16 props=C05 kind=bounded bound=one_width_per_harness fns=unpack32 tier=thorough timeout=900 mem=3
unpack_contract!(unpack32_w16, unpack32, u32, 32, 16);
// @unit name=unpack32_w31 props=C05 kind=bounded bound=one_width_per_harness fns=unpack32 tier=thorough timeout=900 mem=3
unpack_contract!(unpack32_w31, unpack32, u32, 32, 31);
// @unit name=unpack32_w32 props=C05 kind=bounded bound=one_width_per_harness fns=unpack32 tier=thorough timeout=900 mem=3
unpack_contract!(unpack32_w32, unpack32, u32, 32, 32);
// @unit name=unpack64_w0 props=C05 kind=bounded bound=one_width_per_harness fns=unpack64 tier=thorough timeout=900 mem=6
unpack_contract!(unpack64_w0, unpack64, u64, 64, 0);
// @unit name=unpack64_w1 props=C05 kind=bounded bound=one_width_per_harness fns=unpack64 tier=thorough timeout=900 mem=6
unpack_contract!(unpack64_w1, unpack64, u64, 64, 1);
// @unit name=unpack64_w13 props=C05 kind=bounded bound=one_width_per_harness fns=unpack64 tier=thorough timeout=900 mem=6
unpack_contract!(unpack64_w13, unpack64, u64, 64, 13);
// @unit name=unpack64_w32 props=C05 kind=bounded bound=one_width_per_harness fns=unpack64 tier=thorough timeout=900 mem=6
unpack_contract!(unpack64_w32, unpack64, u64, 64, 32);
// @unit name=unpack64_w63 props=C05 kind=bounded bound=one_width_per_harness fns=unpack64 tier=thorough timeout=900 mem=6
unpack_contract!(unpack64_w63, unpack64, u64, 64, 63);
// @unit name=unpack64_w64 props=C05 kind=bounded bound=one_width_per_harness fns=unpack64 tier=thorough timeout=900 mem=6
unpack_contract!(unpack64_w64, unpack64, u64, 64, 64);
