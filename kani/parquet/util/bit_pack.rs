// Kani contract harnesses for /repo/parquet/src/util/bit_pack.rs (child module: sees private items via super::)
use super::*;
#[path = "/verif/kani/support/spec.rs"]
mod spec;
use spec::*;

// Contract (C05): unpackN(input, output, w) for every width w in 0..=N and every input of exactly the
// required length w*N/8 bytes (precondition from the function's own `assert!(input.len() >= ...)`; the
// caller BitReader::get_batch guarantees it): output[i] is the i-th w-bit group of the little-endian bit
// stream — bit j of output[i] = stream bit i*w + j for j < w, and 0 for j >= w — i.e. exactly what the
// naive one-bit-at-a-time extraction gives. Symbolic width (dispatch table included), symbolic
// output index and bit index. The code is loop-free except the w = 0 zero-fill loop (N iterations).
macro_rules! unpack_contract {
    ($name:ident, $f:ident, $t:ty, $bits:expr) => {
        #[kani::proof]
        #[kani::unwind(66)]
        fn $name() {
            const BYTES: usize = $bits * $bits / 8;
            let input: [u8; BYTES] = kani::any();
            let w: usize = kani::any();
            kani::assume(w <= $bits);
            let mut out: [$t; $bits] = kani::any();
            $f(&input[..w * $bits / 8], &mut out, w);
            let i: usize = kani::any();
            let j: usize = kani::any();
            kani::assume(i < $bits && j < $bits);
            let got = (out[i] >> j) & 1 == 1;
            assert!(got == (j < w && bit(&input, i * w + j)));
            kani::cover!(w == 0);
            kani::cover!(w == $bits && got);
            kani::cover!(w == 3 && i == $bits - 1 && j == 2 && got);
            kani::cover!(w == $bits - 1 && i == 1 && j == 0 && got); // value straddles two words
        }
    };
}
// @unit name=unpack8_def props=C05 kind=complete fns=unpack8 timeout=240
unpack_contract!(unpack8_def, unpack8, u8, 8);
// @unit name=unpack16_def props=C05 kind=complete fns=unpack16 timeout=480 mem=3
unpack_contract!(unpack16_def, unpack16, u16, 16);
// @unit name=unpack32_def props=C05 kind=complete fns=unpack32 timeout=900 mem=4 tier=thorough
unpack_contract!(unpack32_def, unpack32, u32, 32);
// @unit name=unpack64_def props=C05 kind=complete fns=unpack64 timeout=900 mem=6 tier=thorough
unpack_contract!(unpack64_def, unpack64, u64, 64);
