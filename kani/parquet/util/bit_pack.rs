// Kani contract harnesses for /repo/parquet/src/util/bit_pack.rs (child module: sees private items via super::)
