// Kani contract harnesses for /repo/parquet/src/util/bit_util.rs (child module: sees private items via super::)
