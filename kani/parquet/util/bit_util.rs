// Kani contract harnesses for /repo/parquet/src/util/bit_util.rs (child module: sees private items via super::)
use super::*;
#[path = "/verif/kani/support/spec.rs"]
mod spec;
use spec::*;

// ---------------------------------------------------------------------------------------------
// independent spec helpers (bit i of a little-endian bit-packed stream = spec::bit)
// ---------------------------------------------------------------------------------------------

/// bit j of a u64
fn b64(v: u64, j: usize) -> bool {
    (v >> j) & 1 == 1
}

/// symbolic byte string of symbolic length <= N living in a fixed array (no allocation)
fn any_prefix<const N: usize>() -> ([u8; N], usize) {
    let a: [u8; N] = kani::any();
    let n: usize = kani::any();
    kani::assume(n <= N);
    (a, n)
}

// ---------------------------------------------------------------------------------------------
// C05 scalar helpers
// ---------------------------------------------------------------------------------------------

// Contract (C05): trailing_bits(v, n) = v mod 2^n for every v and every n (n >= 64 gives v):
// bit j of the result is bit j of v when j < n and 0 otherwise, for every j < 64.
// @unit name=trailing_bits_def props=C05 kind=complete fns=trailing_bits
#[kani::proof]
fn trailing_bits_def() {
    let v: u64 = kani::any();
    let n: usize = kani::any();
    let j: usize = kani::any();
    kani::assume(j < 64);
    let r = trailing_bits(v, n);
    assert!(b64(r, j) == (j < n && b64(v, j)));
    kani::cover!(n == 0);
    kani::cover!(n == 63 && r != v);
    kani::cover!(n == 64);
    kani::cover!(n > 64);
}

// Contract (C05): num_required_bits(x) is the least r in 0..=64 with x < 2^r.
// @unit name=num_required_bits_def props=C05 kind=complete fns=num_required_bits
#[kani::proof]
fn num_required_bits_def() {
    let x: u64 = kani::any();
    let r = num_required_bits(x) as u32;
    assert!(r <= 64);
    // x < 2^r
    assert!(r == 64 || (x >> r) == 0);
    // not x < 2^(r-1)
    assert!(r == 0 || (x >> (r - 1)) != 0);
    kani::cover!(r == 0);
    kani::cover!(r == 1);
    kani::cover!(r == 64);
}

// Contract (C05): ceil(v, d) is the least q with q*d >= v. Complete for u8 (every v, every d != 0,
// products taken in u32); for the wide types every call site in the crate uses d = 8, checked for all
// v: usize and all v: i64 (negative v included: rounds toward +infinity) without a 64-bit multiplier.
// @unit name=ceil_u8_def props=C05 kind=complete fns=ceil
#[kani::proof]
fn ceil_u8_def() {
    let v: u8 = kani::any();
    let d: u8 = kani::any();
    kani::assume(d != 0);
    let q = ceil(v, d) as u32;
    assert!(q * d as u32 >= v as u32);
    assert!(q == 0 || (q - 1) * (d as u32) < v as u32);
    kani::cover!(v % d == 0 && v > 0);
    kani::cover!(v % d != 0);
    kani::cover!(v == 0);
}

// @unit name=ceil_by8_def props=C05 kind=complete fns=ceil
#[kani::proof]
fn ceil_by8_def() {
    let v: usize = kani::any();
    let q = ceil(v, 8usize);
    // q = floor(v / 2^3) + [v mod 2^3 != 0]
    assert!(q == (v >> 3) + ((v & 7 != 0) as usize));
    let s: i64 = kani::any();
    let qs = ceil(s, 8i64);
    // arithmetic shift = floor division, for negative values too
    assert!(qs == (s >> 3) + ((s & 7 != 0) as i64));
    kani::cover!(v & 7 == 0 && v > 0);
    kani::cover!(v == usize::MAX);
    kani::cover!(s < 0 && s & 7 != 0);
    kani::cover!(s == i64::MAX);
}

// Contract (C05/C19): get_bit(data, i) is bit (i mod 8) of byte (i div 8), LSB first, for every i inside data.
// @unit name=get_bit_def props=C05 kind=bounded bound=data<=16_bytes fns=get_bit
#[kani::proof]
fn get_bit_def() {
    let (a, n) = any_prefix::<16>();
    let i: usize = kani::any();
    kani::assume(i < n * 8);
    assert!(get_bit(&a[..n], i) == bit(&a, i));
    kani::cover!(i == 127);
    kani::cover!(i == 0 && get_bit(&a[..n], i));
}

// Contract (C05): read_num_bytes::<u64>(size, src) (precondition from the call sites: size <= 8 and
// size <= src.len()) is the little-endian integer formed by the first `size` bytes, zero-extended.
// @unit name=read_num_bytes_u64_def props=C05 kind=bounded bound=src<=12_bytes fns=read_num_bytes
#[kani::proof]
#[kani::unwind(10)]
fn read_num_bytes_u64_def() {
    let (a, n) = any_prefix::<12>();
    let size: usize = kani::any();
    kani::assume(size <= 8 && size <= n);
    let v: u64 = read_num_bytes::<u64>(size, &a[..n]);
    let j: usize = kani::any();
    kani::assume(j < 64);
    assert!(b64(v, j) == (j < size * 8 && bit(&a, j)));
    kani::cover!(size == 0);
    kani::cover!(size == 8 && v == u64::MAX);
    kani::cover!(size == 3 && n == 12);
}

// ---------------------------------------------------------------------------------------------
// C05 BitWriter: byte/bit layout and accounting
// ---------------------------------------------------------------------------------------------

/// precondition of put_value taken from its debug assertions / call sites: n <= 64 and v < 2^n
fn any_value_of_width(n: usize) -> u64 {
    let v: u64 = kani::any();
    kani::assume(n <= 64);
    kani::assume(n == 64 || (v >> n) == 0);
    v
}

// Contract (C05): after put_value(v_0,n_0); ...; put_value(v_{K-1},n_{K-1}) on a fresh writer (every
// width 0..=64, every value of that width) the stream is the concatenation of the values, LSB first:
// bytes_written() = ceil(sum n_i / 8) = length of the consumed buffer; bit j of the buffer is bit
// (j - start_i) of the value whose range contains j; the padding bits of the last byte are 0.
// (K = 2 crosses the 64-bit accumulator boundary once, K = 3 twice.)
fn put_value_layout<const K: usize>() {
    let n: [usize; K] = kani::any();
    let mut v = [0u64; K];
    let mut w = BitWriter::new(32);
    let mut total = 0;
    let mut k = 0;
    while k < K {
        v[k] = any_value_of_width(n[k]);
        w.put_value(v[k], n[k]);
        total += n[k];
        k += 1;
    }
    let nbytes = (total + 7) / 8;
    assert!(w.bytes_written() == nbytes);
    let buf = w.consume();
    assert!(buf.len() == nbytes);
    let j: usize = kani::any();
    if j < nbytes * 8 {
        // spec: walk the value ranges
        let mut expect = false;
        let mut start = 0;
        let mut k = 0;
        while k < K {
            if j >= start && j < start + n[k] {
                expect = b64(v[k], j - start);
            }
            start += n[k];
            k += 1;
        }
        assert!(bit(&buf, j) == expect);
        kani::cover!(n[0] == 63 && n[1] == 2 && j == 64 && expect);
        kani::cover!(total % 8 != 0 && j >= total);
    }
    kani::cover!(n[0] == 64 && n[K - 1] == 64 && total == 64 * K);
    kani::cover!(n[0] == 0 && n[1] == 3 && total == 3);
    kani::cover!(total == 0);
}
// @unit name=bitwriter_put_value_layout_k2 props=C05 kind=bounded bound=2_values_widths_0..=64 fns=BitWriter::put_value,BitWriter::flush,BitWriter::consume,BitWriter::bytes_written tier=quick timeout=480 mem=3
#[kani::proof]
#[kani::unwind(10)]
fn bitwriter_put_value_layout_k2() {
    put_value_layout::<2>()
}
// @unit name=bitwriter_put_value_layout_k3 props=C05 kind=bounded bound=3_values_widths_0..=64 fns=BitWriter::put_value,BitWriter::flush,BitWriter::consume,BitWriter::bytes_written tier=thorough timeout=900 mem=4
#[kani::proof]
#[kani::unwind(10)]
fn bitwriter_put_value_layout_k3() {
    put_value_layout::<3>()
}

// Contract (C05): skip(K) first pads the pending bits to a byte boundary with zeros (flush), returns
// the offset of the reserved region, and appends exactly K zero bytes; byte_offset()/bytes_written()
// count exactly; flush on an aligned writer changes nothing. The first value (any width 0..=20) stays
// intact in front. Grid over K (allocation size concrete per harness).
fn bitwriter_skip_at<const K: usize>() {
    let n0: usize = kani::any();
    kani::assume(n0 <= 20);
    let v0 = any_value_of_width(n0);
    let mut w = BitWriter::new(32);
    w.put_value(v0, n0);
    let head = (n0 + 7) / 8;
    let off = w.skip(K);
    assert!(off == head);
    assert!(w.byte_offset() == head + K && w.bytes_written() == head + K);
    w.flush();
    assert!(w.byte_offset() == head + K && w.bytes_written() == head + K);
    let buf = w.consume();
    assert!(buf.len() == head + K);
    let j: usize = kani::any();
    if j < buf.len() * 8 {
        assert!(bit(&buf, j) == (j < n0 && b64(v0, j)));
    }
    kani::cover!(n0 == 0);
    kani::cover!(n0 == 13 && j == 12 && bit(&buf, j));
    kani::cover!(n0 == 16);
}
// @unit name=bitwriter_skip_0 props=C05 kind=bounded bound=skip_0_bytes_after_one_value<=20_bits fns=BitWriter::skip,BitWriter::flush,BitWriter::byte_offset,BitWriter::bytes_written timeout=240
#[kani::proof]
#[kani::unwind(10)]
fn bitwriter_skip_0() {
    bitwriter_skip_at::<0>()
}
// @unit name=bitwriter_skip_3 props=C05 kind=bounded bound=skip_3_bytes_after_one_value<=20_bits fns=BitWriter::skip,BitWriter::flush,BitWriter::byte_offset,BitWriter::bytes_written timeout=240
#[kani::proof]
#[kani::unwind(10)]
fn bitwriter_skip_3() {
    bitwriter_skip_at::<3>()
}

// Contract (C05): put_aligned::<u64>(x, NB) pads the pending bits to a byte boundary and appends the
// first min(NB, 8) little-endian bytes of x (truncating the high-order bytes), nothing else.
fn bitwriter_put_aligned_at<const NB: usize>() {
    let n0: usize = kani::any();
    kani::assume(n0 <= 20);
    let v0 = any_value_of_width(n0);
    let mut w = BitWriter::new(32);
    w.put_value(v0, n0);
    let head = (n0 + 7) / 8;
    let x: u64 = kani::any();
    w.put_aligned::<u64>(x, NB);
    let m = if NB < 8 { NB } else { 8 };
    assert!(w.bytes_written() == head + m && w.byte_offset() == head + m);
    let buf = w.consume();
    assert!(buf.len() == head + m);
    let j: usize = kani::any();
    if j < buf.len() * 8 {
        if j < head * 8 {
            assert!(bit(&buf, j) == (j < n0 && b64(v0, j)));
        } else {
            assert!(bit(&buf, j) == b64(x, j - head * 8));
        }
    }
    kani::cover!(n0 == 0);
    kani::cover!(n0 == 9 && j == 16 + 8 * m - 1);
}
// @unit name=bitwriter_put_aligned_0 props=C05 kind=bounded bound=num_bytes=0_after_one_value<=20_bits fns=BitWriter::put_aligned timeout=240
#[kani::proof]
#[kani::unwind(10)]
fn bitwriter_put_aligned_0() {
    bitwriter_put_aligned_at::<0>()
}
// @unit name=bitwriter_put_aligned_3 props=C05 kind=bounded bound=num_bytes=3_after_one_value<=20_bits fns=BitWriter::put_aligned timeout=240
#[kani::proof]
#[kani::unwind(10)]
fn bitwriter_put_aligned_3() {
    bitwriter_put_aligned_at::<3>()
}
// @unit name=bitwriter_put_aligned_8 props=C05 kind=bounded bound=num_bytes=8_after_one_value<=20_bits fns=BitWriter::put_aligned timeout=240
#[kani::proof]
#[kani::unwind(10)]
fn bitwriter_put_aligned_8() {
    bitwriter_put_aligned_at::<8>()
}
// @unit name=bitwriter_put_aligned_11 props=C05 kind=bounded bound=num_bytes=11_after_one_value<=20_bits fns=BitWriter::put_aligned timeout=240
#[kani::proof]
#[kani::unwind(10)]
fn bitwriter_put_aligned_11() {
    bitwriter_put_aligned_at::<11>()
}

// Contract (C05): on a 6-byte buffer with arbitrary contents, put_aligned_offset::<u32>(y, nb, off)
// (precondition from its documented panic: off + min(nb,4) <= 6) overwrites exactly the bytes
// [off, off+min(nb,4)) with the first little-endian bytes of y and leaves every other byte and the
// length unchanged; write_at(o, b) changes exactly byte o.
// @unit name=bitwriter_put_aligned_offset_frame props=C05 kind=bounded bound=buffer=6_bytes fns=BitWriter::put_aligned_offset,BitWriter::write_at timeout=240
#[kani::proof]
#[kani::unwind(10)]
fn bitwriter_put_aligned_offset_frame() {
    let init: [u8; 6] = kani::any();
    let mut w = BitWriter::new_from_buf(init.to_vec());
    let y: u32 = kani::any();
    let nb: usize = kani::any();
    let off: usize = kani::any();
    let m = if nb < 4 { nb } else { 4 };
    kani::assume(off <= 6 && off + m <= 6);
    w.put_aligned_offset::<u32>(y, nb, off);
    let yb = y.to_le_bytes();
    let i: usize = kani::any();
    kani::assume(i < 6);
    assert!(w.bytes_written() == 6);
    if i >= off && i < off + m {
        assert!(w.buffer()[i] == yb[i - off]);
    } else {
        assert!(w.buffer()[i] == init[i]);
    }
    let mid: [u8; 6] = w.buffer().try_into().unwrap();
    let o: usize = kani::any();
    let b: u8 = kani::any();
    kani::assume(o < 6);
    w.write_at(o, b);
    assert!(w.buffer()[i] == if i == o { b } else { mid[i] });
    assert!(w.bytes_written() == 6);
    kani::cover!(nb == 0);
    kani::cover!(nb > 4 && off == 2);
    kani::cover!(nb == 3 && off == 3 && i == 5);
}

// Contract (C05): for every u64 v, put_vlq_int(v) emits the canonical LEB128 string: L = max(1,
// ceil(bitlen(v)/7)) bytes (1..=10), byte i carries bits [7i, 7i+7) of v, continuation bit set exactly
// on the first L-1 bytes; BitReader::get_vlq_int on these bytes returns Some(v) and consumes all L bytes.
// @unit name=vlq_int_roundtrip props=C05 kind=complete fns=BitWriter::put_vlq_int,BitReader::get_vlq_int tier=quick timeout=240 mem=3
#[kani::proof]
#[kani::unwind(12)]
fn vlq_int_roundtrip() {
    let v: u64 = kani::any();
    let mut w = BitWriter::new(16);
    w.put_vlq_int(v);
    let bytes = w.consume();
    let len = bytes.len();
    let bitlen = 64 - v.leading_zeros() as usize;
    let want = if v == 0 { 1 } else { (bitlen + 6) / 7 };
    assert!(len == want && len >= 1 && len <= MAX_VLQ_BYTE_LEN);
    let i: usize = kani::any();
    kani::assume(i < len);
    assert!((bytes[i] & 0x7f) as u64 == (v >> (7 * i)) & 0x7f);
    assert!((bytes[i] & 0x80 != 0) == (i + 1 < len));
    let mut r = BitReader::from(bytes);
    let got = r.get_vlq_int();
    assert!(got == Some(v as i64));
    assert!(r.get_byte_offset() == len);
    kani::cover!(len == 1);
    kani::cover!(len == 10);
    kani::cover!(len == 5);
    std::mem::forget(r);
}

// Contract (C05): for every i64 v, put_zigzag_vlq_int(v) then get_zigzag_vlq_int returns Some(v) and
// consumes every byte; the encoded length is that of the zig-zag image 2|v| - [v<0] (small magnitudes
// of either sign are short: |v| < 64 gives one byte).
// @unit name=zigzag_vlq_int_roundtrip props=C05 kind=complete fns=BitWriter::put_zigzag_vlq_int,BitReader::get_zigzag_vlq_int tier=quick timeout=240 mem=3
#[kani::proof]
#[kani::unwind(12)]
fn zigzag_vlq_int_roundtrip() {
    let v: i64 = kani::any();
    let mut w = BitWriter::new(16);
    w.put_zigzag_vlq_int(v);
    let bytes = w.consume();
    let len = bytes.len();
    assert!(len >= 1 && len <= 10);
    // zig-zag image computed in 128-bit arithmetic: 2v for v >= 0, -2v-1 for v < 0
    let z: i128 = if v >= 0 { 2 * v as i128 } else { -2 * (v as i128) - 1 };
    assert!((len == 1) == (z < 128));
    assert!((len == 10) == (z >= 1i128 << 63));
    let mut r = BitReader::from(bytes);
    let got = r.get_zigzag_vlq_int();
    assert!(got == Some(v));
    assert!(r.get_byte_offset() == len);
    kani::cover!(v == i64::MIN);
    kani::cover!(v == i64::MAX);
    kani::cover!(v == -64 && len == 1);
    kani::cover!(v == 64 && len == 2);
    std::mem::forget(r);
}

// ---------------------------------------------------------------------------------------------
// C05/C08 BitReader on arbitrary buffers: functional model = a bit cursor `pos` over the byte string.
//
// Inductive scheme. INV(r) relates the private fields to the model:
//     pos = 8*byte_offset + bit_offset <= 8*len,  bit_offset < 64,
//     bit_offset != 0  ==>  buffered_values = little-endian load of min(8, len - byte_offset) bytes at byte_offset
// BitReader::new establishes INV with pos = 0 (bitreader_new_inv). Each bitreader_inv_* unit starts from an
// ARBITRARY state satisfying INV (fields set directly; child module), runs ONE operation with arbitrary
// arguments, and proves: no panic, result = model, new pos = model, INV again. By induction every finite
// sequence of these operations on a buffer of that size follows the model; bitreader_get_value_k2/k3
// additionally run short sequences from `new` end to end.
// ---------------------------------------------------------------------------------------------

/// reader over the first n bytes of a (the only allocation is the Bytes itself)
fn reader_of<const N: usize>(a: &[u8; N], n: usize) -> BitReader {
    BitReader::from(a[..n].to_vec())
}

/// the little-endian integer made of bytes [at, at+nb) of buf (nb <= 8); written without a loop so
/// that harnesses with a small unwind bound can use it
fn spec_le(buf: &[u8], at: usize, nb: usize) -> u64 {
    let mut v = 0u64;
    if nb > 0 { v |= buf[at] as u64; }
    if nb > 1 { v |= (buf[at + 1] as u64) << 8; }
    if nb > 2 { v |= (buf[at + 2] as u64) << 16; }
    if nb > 3 { v |= (buf[at + 3] as u64) << 24; }
    if nb > 4 { v |= (buf[at + 4] as u64) << 32; }
    if nb > 5 { v |= (buf[at + 5] as u64) << 40; }
    if nb > 6 { v |= (buf[at + 6] as u64) << 48; }
    if nb > 7 { v |= (buf[at + 7] as u64) << 56; }
    v
}

fn inv<const N: usize>(r: &BitReader, a: &[u8; N], len: usize) -> bool {
    r.buffer.len() == len
        && r.bit_offset < 64
        && r.byte_offset <= len
        && r.byte_offset * 8 + r.bit_offset <= len * 8
        && (r.bit_offset == 0 || {
            let k = if len - r.byte_offset < 8 { len - r.byte_offset } else { 8 };
            r.buffered_values == spec_le(a, r.byte_offset, k)
        })
}

/// an arbitrary reader state satisfying INV over an arbitrary buffer of <= N bytes; returns (reader, bytes, len, pos)
fn any_reader<const N: usize>() -> (BitReader, [u8; N], usize, usize) {
    let (a, len) = any_prefix::<N>();
    let mut r = reader_of(&a, len);
    r.byte_offset = kani::any();
    r.bit_offset = kani::any();
    r.buffered_values = kani::any();
    kani::assume(inv(&r, &a, len));
    let pos = r.byte_offset * 8 + r.bit_offset;
    (r, a, len, pos)
}

/// number of whole nb-bit values to deliver: the largest m <= want with m*nb <= remaining bits
/// (stated as a characterisation, no division)
fn is_batch_count(m: usize, want: usize, nb: usize, remaining: usize) -> bool {
    m <= want && m * nb <= remaining && (m == want || (m + 1) * nb > remaining)
}

/// LEB128 model on a byte string: Some((value mod 2^64, bytes used)) for the first terminated group
/// sequence starting at `at`, None if the input ends first. (No length limit: the model is total.)
fn spec_vlq(buf: &[u8], at: usize, len: usize) -> Option<(u64, usize)> {
    let mut v = 0u64;
    let mut i = 0;
    while at + i < len {
        let b = buf[at + i];
        if 7 * i < 64 {
            v |= ((b & 0x7f) as u64) << (7 * i);
        }
        if b & 0x80 == 0 {
            return Some((v, i + 1));
        }
        i += 1;
    }
    None
}

// Contract (C08): BitReader::new / From<Vec<u8>> / reset establish INV with the cursor at bit 0.
// @unit name=bitreader_new_inv props=C08,C05 kind=bounded bound=buffer<=12_bytes fns=BitReader::new,BitReader::reset,BitReader::get_byte_offset timeout=240
#[kani::proof]
#[kani::unwind(14)]
fn bitreader_new_inv() {
    let (a, len) = any_prefix::<12>();
    let mut r = reader_of(&a, len);
    assert!(inv(&r, &a, len) && r.byte_offset == 0 && r.bit_offset == 0 && r.get_byte_offset() == 0);
    let (b, lb) = any_prefix::<12>();
    r.byte_offset = kani::any();
    r.bit_offset = kani::any();
    let old = std::mem::replace(&mut r.buffer, Bytes::new());
    std::mem::forget(old);
    r.reset(Bytes::from(b[..lb].to_vec()));
    assert!(inv(&r, &b, lb) && r.byte_offset == 0 && r.bit_offset == 0);
    kani::cover!(len == 12 && lb == 0);
    std::mem::forget(r);
}

// Contract (C05, C08): from ANY state satisfying INV over an arbitrary buffer (<= 17 bytes, symbolic
// length) get_value::<u64>(n), any n in 0..=64: returns Some(v) iff n bits remain; v is then exactly
// the stream bits [pos, pos+n), LSB first, zero-extended, and pos advances by n; otherwise None and
// nothing moves. INV holds afterwards. Never panics.
// @unit name=bitreader_inv_get_value props=C05,C08 kind=bounded bound=one_step_from_any_state_buffer<=17_bytes fns=BitReader::get_value,BitReader::load_buffered_values,BitReader::get_byte_offset tier=quick timeout=480 mem=3
#[kani::proof]
#[kani::unwind(10)]
fn bitreader_inv_get_value() {
    let (mut r, a, len, pos) = any_reader::<17>();
    let n: usize = kani::any();
    kani::assume(n <= 64);
    let got: Option<u64> = r.get_value(n);
    let avail = pos + n <= len * 8;
    assert!(got.is_some() == avail);
    let jb: usize = kani::any();
    kani::assume(jb < 64);
    if avail {
        assert!(b64(got.unwrap(), jb) == (jb < n && bit(&a, pos + jb)));
    }
    assert!(r.byte_offset * 8 + r.bit_offset == if avail { pos + n } else { pos });
    assert!(r.get_byte_offset() == (r.byte_offset * 8 + r.bit_offset + 7) / 8);
    assert!(inv(&r, &a, len));
    kani::cover!(avail && n == 64 && pos == 63 && jb == 63 && bit(&a, pos + jb));
    kani::cover!(avail && n == 64 && pos % 64 == 0);
    kani::cover!(avail && n == 0);
    kani::cover!(avail && pos == 21 && n == 43); // lands exactly on the 64-bit word boundary
    kani::cover!(avail && pos == 8 * 9 + 5 && n == 59 && len == 17);
    kani::cover!(!avail && pos > 0 && n < 8);
    std::mem::forget(r);
}

// Contract (C05, C08): get_value::<T> for the narrower T (precondition = its debug assertion
// n <= 8*size_of::<T>(); bool: n <= 1): same contract, the n bits zero-extended into T (bool: the bit).
macro_rules! inv_get_value_narrow {
    ($name:ident, $t:ty, $cap:expr, $x:ident => $conv:expr) => {
        #[kani::proof]
        #[kani::unwind(10)]
        fn $name() {
            let (mut r, a, len, pos) = any_reader::<12>();
            let n: usize = kani::any();
            kani::assume(n <= $cap);
            let got: Option<$t> = r.get_value(n);
            let avail = pos + n <= len * 8;
            assert!(got.is_some() == avail);
            let jb: usize = kani::any();
            kani::assume(jb < 64);
            if avail {
                let $x = got.unwrap();
                let v: u64 = $conv;
                assert!(b64(v, jb) == (jb < n && bit(&a, pos + jb)));
            }
            assert!(r.byte_offset * 8 + r.bit_offset == if avail { pos + n } else { pos });
            assert!(inv(&r, &a, len));
            kani::cover!(avail && n == $cap && pos == 63 && jb == $cap - 1 && bit(&a, pos + jb));
            kani::cover!(avail && n == 0);
            kani::cover!(!avail && pos > 0);
            std::mem::forget(r);
        }
    };
}
// @unit name=bitreader_inv_get_value_u8 props=C05,C08 kind=bounded bound=one_step_from_any_state_buffer<=12_bytes fns=BitReader::get_value,FromBitpacked<u8>::from_u64 timeout=480 mem=3
inv_get_value_narrow!(bitreader_inv_get_value_u8, u8, 8, x => x as u64);
// NOT CONFIRMED: same macro as the confirmed _u8/_bool instances; not run yet
// @unit name=bitreader_inv_get_value_u16 props=C05,C08 kind=bounded bound=one_step_from_any_state_buffer<=12_bytes fns=BitReader::get_value,FromBitpacked<u16>::from_u64 timeout=900 mem=3 tier=thorough
inv_get_value_narrow!(bitreader_inv_get_value_u16, u16, 16, x => x as u64);
// NOT CONFIRMED: same macro as the confirmed _u8/_bool instances; not run yet
// @unit name=bitreader_inv_get_value_i32 props=C05,C08 kind=bounded bound=one_step_from_any_state_buffer<=12_bytes fns=BitReader::get_value,FromBitpacked<i32>::from_u64 timeout=900 mem=3 tier=thorough
inv_get_value_narrow!(bitreader_inv_get_value_i32, i32, 32, x => x as u32 as u64);
// NOT CONFIRMED: same macro as the confirmed _u8/_bool instances; not run yet
// @unit name=bitreader_inv_get_value_i64 props=C05,C08 kind=bounded bound=one_step_from_any_state_buffer<=12_bytes fns=BitReader::get_value,FromBitpacked<i64>::from_u64 timeout=900 mem=3 tier=thorough
inv_get_value_narrow!(bitreader_inv_get_value_i64, i64, 64, x => x as u64);
// @unit name=bitreader_inv_get_value_bool props=C05,C08 kind=bounded bound=one_step_from_any_state_buffer<=12_bytes fns=BitReader::get_value,FromBitpacked<bool>::from_u64 timeout=480 mem=3
inv_get_value_narrow!(bitreader_inv_get_value_bool, bool, 1, x => x as u64);

// Contract (C05, C08): K successive get_value::<u64>(n_i) from BitReader::new on an arbitrary buffer,
// any widths 0..=64, end to end against the same model (base case + K steps of the induction).
fn get_value_seq<const K: usize, const N: usize>() {
    let (a, len) = any_prefix::<N>();
    let mut r = reader_of(&a, len);
    let mut pos = 0usize;
    let jb: usize = kani::any(); // checked bit of each result
    kani::assume(jb < 64);
    let mut nones = 0;
    let mut k = 0;
    while k < K {
        let n: usize = kani::any();
        kani::assume(n <= 64);
        let got: Option<u64> = r.get_value(n);
        if pos + n <= len * 8 {
            assert!(got.is_some());
            let v = got.unwrap();
            assert!(b64(v, jb) == (jb < n && bit(&a, pos + jb)));
            pos += n;
        } else {
            assert!(got.is_none());
            nones += 1;
        }
        assert!(r.byte_offset * 8 + r.bit_offset == pos);
        assert!(r.get_byte_offset() == (pos + 7) / 8);
        k += 1;
    }
    kani::cover!(nones == 0 && pos == 64 * K);
    kani::cover!(nones == K);
    kani::cover!(nones == 1 && pos == len * 8 && pos > 0);
    kani::cover!(len == 0);
    std::mem::forget(r);
}
// @unit name=bitreader_get_value_k2 props=C05,C08 kind=bounded bound=2_calls_buffer<=16_bytes fns=BitReader::get_value,BitReader::load_buffered_values,BitReader::get_byte_offset tier=quick timeout=480 mem=3
#[kani::proof]
#[kani::unwind(10)]
fn bitreader_get_value_k2() {
    get_value_seq::<2, 16>()
}
// @unit name=bitreader_get_value_k3 props=C05,C08 kind=bounded bound=3_calls_buffer<=24_bytes fns=BitReader::get_value,BitReader::load_buffered_values,BitReader::get_byte_offset tier=thorough timeout=900 mem=4
#[kani::proof]
#[kani::unwind(10)]
fn bitreader_get_value_k3() {
    get_value_seq::<3, 24>()
}

// Contract (C05, C08): from any INV state, get_aligned::<T>(nb) (precondition from the call sites:
// nb <= size_of::<T>()): the cursor first moves to the next byte boundary p = ceil(pos/8); if
// p + nb <= len the result is Some(little-endian value of bytes [p, p+nb), zero-extended; bool: != 0)
// and the cursor is p + nb; otherwise None and the cursor stays at p. INV afterwards.
// @unit name=bitreader_inv_get_aligned props=C05,C08 kind=bounded bound=one_step_from_any_state_buffer<=12_bytes fns=BitReader::get_aligned,read_num_bytes,FromBytes::from_le_bytes tier=quick timeout=480 mem=3
#[kani::proof]
#[kani::unwind(10)]
fn bitreader_inv_get_aligned() {
    let (mut r, a, len, pos) = any_reader::<12>();
    let p = (pos + 7) / 8;
    let nb: usize = kani::any();
    let which: u8 = kani::any();
    kani::assume(nb <= match which { 0 => 8, 1 => 4, _ => 1 });
    let avail = p + nb <= len;
    let want = if avail { spec_le(&a, p, nb) } else { 0 };
    match which {
        0 => {
            let g: Option<u64> = r.get_aligned(nb);
            assert!(g.is_some() == avail);
            assert!(!avail || g.unwrap() == want);
        }
        1 => {
            let g: Option<u32> = r.get_aligned(nb);
            assert!(g.is_some() == avail);
            assert!(!avail || g.unwrap() as u64 == want);
        }
        2 => {
            let g: Option<u8> = r.get_aligned(nb);
            assert!(g.is_some() == avail);
            assert!(!avail || g.unwrap() as u64 == want);
        }
        _ => {
            let g: Option<bool> = r.get_aligned(nb);
            assert!(g.is_some() == avail);
            assert!(!avail || g.unwrap() == (want != 0));
        }
    }
    assert!(r.bit_offset == 0 && r.byte_offset == if avail { p + nb } else { p });
    assert!(inv(&r, &a, len));
    kani::cover!(which == 0 && avail && nb == 8 && pos == 3);
    kani::cover!(which == 0 && avail && nb == 0);
    kani::cover!(which == 1 && !avail && p == len);
    kani::cover!(which == 3 && avail && nb == 1 && want == 2);
    std::mem::forget(r);
}

// Contract (C08) — EXPECTED TO FAIL ON THE UNCHANGED TREE (candidate finding F2). For ARBITRARY bytes
// (<= 12, symbolic length) and any reader state, get_vlq_int and get_zigzag_vlq_int return — they
// never panic: Some(v) with the cursor just after the terminating byte when a byte without
// continuation bit occurs, None when the input is exhausted (or, were the code to reject them,
// for over-long encodings). Failing obligations on the unchanged code: `attempt to shift left with
// overflow` at bit_util.rs:890 (and behind it `assert!(shift <= MAX_VLQ_BYTE_LEN * 7)` at :892)
// whenever the aligned remainder starts with 11 bytes >= 0x80.
// @unit name=bitreader_get_vlq_int_total props=C08 kind=bounded bound=buffer<=12_bytes fns=BitReader::get_vlq_int,BitReader::get_zigzag_vlq_int tier=quick timeout=480 mem=3
#[kani::proof]
#[kani::unwind(14)]
fn bitreader_get_vlq_int_total() {
    let (mut r, a, len, pos) = any_reader::<12>();
    let p = (pos + 7) / 8;
    let zz: bool = kani::any();
    let got = if zz { r.get_zigzag_vlq_int() } else { r.get_vlq_int() };
    let model = spec_vlq(&a, p, len);
    match got {
        Some(v) => {
            // a value is only ever produced from a terminated group sequence, and it is that value
            assert!(model.is_some());
            let (u, used) = model.unwrap();
            assert!(r.byte_offset == p + used && r.bit_offset == 0);
            let want = if zz { ((u >> 1) as i64) ^ -((u & 1) as i64) } else { u as i64 };
            assert!(used > 10 || v == want);
        }
        None => {
            // None only when the input ran out or the encoding is over-long
            assert!(model.is_none() || model.unwrap().1 > 10);
        }
    }
    assert!(inv(&r, &a, len));
    kani::cover!(got.is_none() && len == 12);
    kani::cover!(got.is_some() && model.unwrap().1 == 10);
    kani::cover!(got == Some(-1) && zz);
    std::mem::forget(r);
}

// Contract (C05, C08): the same model restricted to buffers of <= 10 bytes, where an over-long
// encoding cannot occur: from any INV state get_vlq_int = Some(LEB128 value) with the cursor after the
// terminator iff a terminator exists in the aligned remainder, else None with the cursor at the
// alignment boundary; get_zigzag_vlq_int = the zig-zag decoding of the same. INV afterwards.
// (passes on the unchanged tree)
// NOT CONFIRMED: not run in the inductive form (its prefix-read predecessor passed in 63-166 s)
// @unit name=bitreader_inv_get_vlq_int_le10 props=C05,C08 kind=bounded bound=one_step_from_any_state_buffer<=10_bytes fns=BitReader::get_vlq_int,BitReader::get_zigzag_vlq_int tier=thorough timeout=900 mem=3
#[kani::proof]
#[kani::unwind(12)]
fn bitreader_inv_get_vlq_int_le10() {
    let (mut r, a, len, pos) = any_reader::<10>();
    let p = (pos + 7) / 8;
    let zz: bool = kani::any();
    let got = if zz { r.get_zigzag_vlq_int() } else { r.get_vlq_int() };
    let model = spec_vlq(&a, p, len);
    match model {
        Some((u, used)) => {
            let want = if zz { ((u >> 1) as i64) ^ -((u & 1) as i64) } else { u as i64 };
            assert!(got == Some(want));
            assert!(r.byte_offset == p + used && r.bit_offset == 0);
        }
        None => {
            assert!(got.is_none());
            assert!(r.byte_offset == p && r.bit_offset == 0);
        }
    }
    assert!(inv(&r, &a, len));
    kani::cover!(got.is_none() && len == 10);
    kani::cover!(got.is_some() && model.unwrap().1 == 10);
    kani::cover!(got == Some(i64::MIN) && zz);
    kani::cover!(got.is_some() && p == 1 && pos == 3);
    std::mem::forget(r);
}

// Contract (C05, C08): from any INV state skip(nv, nb), nb <= 64 (debug assertion), nv <= 2^32
// (precondition: nv*nb must not overflow usize; callers pass counts bounded by a u32 run length):
// returns m = min(nv, remaining_bits div nb) (nv when nb = 0), the cursor advances by exactly m*nb
// bits, INV afterwards (so the next read sees the right word). Never panics.
// @unit name=bitreader_inv_skip props=C05,C08 kind=bounded bound=one_step_from_any_state_buffer<=17_bytes fns=BitReader::skip tier=quick timeout=480 mem=3
#[kani::proof]
#[kani::unwind(10)]
fn bitreader_inv_skip() {
    let (mut r, a, len, pos) = any_reader::<17>();
    let nv: usize = kani::any();
    let nb: usize = kani::any();
    kani::assume(nb <= 64 && nv <= 1 << 32);
    let m = r.skip(nv, nb);
    assert!(is_batch_count(m, nv, nb, len * 8 - pos));
    assert!(r.byte_offset * 8 + r.bit_offset == pos + m * nb);
    assert!(inv(&r, &a, len));
    kani::cover!(m == nv && nv == 3 && nb == 7 && pos == 2);
    kani::cover!(m < nv && m == 2 && nb == 64);
    kani::cover!(nb == 0 && m == 1 << 32);
    kani::cover!(m == 0 && nv > 0);
    kani::cover!(r.bit_offset == 5 && r.byte_offset == 16);
    std::mem::forget(r);
}

// Contract (C05, C08): get_batch::<u8>(batch[..L], nb) (documented precondition nb <= 8) against the
// model: returns m = min(L, remaining_bits div nb) (L when nb = 0); batch[i] for i < m is exactly the
// i-th nb-bit group at the cursor — what repeated get_value(nb) delivers — batch[i] for i >= m is
// untouched; the cursor advances by m*nb bits; INV afterwards; never panics. Two families of start
// states/batch sizes keep the loops short (each loop iteration inlines a get_value; a batch of 11 from any
// state, and even 8..=10 values with a possibly short buffer, exceeded 10 GB):
//  _small_w5 : ANY INV state, L <= 2, width 5  (alignment loop, trailing loop, short buffers; no fast path)
//  _fast_w: any BYTE-ALIGNED INV state (bit_offset = 0, any byte_offset) holding >= 8 more values of width
//           W, L = 8 (exactly one unpack8 call, the SIMD-friendly path)
// (batch <= 2 with a SYMBOLIC width also exceeded 10 GB: the width is concrete here)
// NOT CONFIRMED: get_batch units are heavy (fast_w1 passed in 992 s with 44507 checks; w3/w8 timed out just below 1000 s; the symbolic-width small variant exceeded 10 GB); not confirmed under load
// @unit name=bitreader_inv_get_batch_u8_small_w5 props=C05,C08 kind=bounded bound=width=5_batch<=2_any_state_buffer<=12_bytes fns=BitReader::get_batch tier=thorough timeout=900 mem=8
#[kani::proof]
#[kani::unwind(4)]
fn bitreader_inv_get_batch_u8_small_w5() {
    const NB: usize = 5;
    let (mut r, a, len, pos) = any_reader::<12>();
    let init: [u8; 2] = kani::any();
    let mut batch = init;
    let l: usize = kani::any();
    kani::assume(l <= 2);
    let m = r.get_batch::<u8>(&mut batch[..l], NB);
    assert!(is_batch_count(m, l, NB, len * 8 - pos));
    let i: usize = kani::any();
    kani::assume(i < 2);
    let jb: usize = kani::any();
    kani::assume(jb < 8);
    if i < m {
        assert!(b64(batch[i] as u64, jb) == (jb < NB && bit(&a, pos + i * NB + jb)));
    } else {
        assert!(batch[i] == init[i]);
    }
    assert!(r.byte_offset * 8 + r.bit_offset == pos + m * NB);
    assert!(inv(&r, &a, len));
    kani::cover!(m == 2 && pos == 61);
    kani::cover!(m == 2 && pos == 64 - 5); // one alignment read, one trailing read
    kani::cover!(m == 1 && l == 2);
    kani::cover!(m == 0 && l == 2);
    kani::cover!(l == 0);
    std::mem::forget(r);
}
fn inv_get_batch_u8_fast<const W: usize>() {
    let (mut r, a, len, pos) = any_reader::<12>();
    kani::assume(r.bit_offset == 0 && pos + 8 * W <= len * 8);
    let mut batch: [u8; 8] = kani::any();
    let m = r.get_batch::<u8>(&mut batch, W);
    assert!(m == 8);
    let i: usize = kani::any();
    kani::assume(i < 8);
    let jb: usize = kani::any();
    kani::assume(jb < 8);
    assert!(b64(batch[i] as u64, jb) == (jb < W && bit(&a, pos + i * W + jb)));
    assert!(r.byte_offset * 8 + r.bit_offset == pos + 8 * W);
    assert!(inv(&r, &a, len));
    kani::cover!(pos == 8 && i == 7 && jb + 1 == W && batch[7] >> jb == 1);
    kani::cover!(pos + 8 * W == len * 8 && len == 12);
    std::mem::forget(r);
}
// @unit name=bitreader_inv_get_batch_u8_fast_w1 props=C05,C08 kind=bounded bound=width=1_batch=8_aligned_state_buffer<=12_bytes fns=BitReader::get_batch,FromBitpacked<u8>::unpack_batch,unpack8 tier=thorough timeout=900 mem=6
#[kani::proof]
#[kani::unwind(2)]
fn bitreader_inv_get_batch_u8_fast_w1() {
    inv_get_batch_u8_fast::<1>()
}
// NOT CONFIRMED: get_batch units are heavy (fast_w1 passed in 992 s with 44507 checks; w3/w8 timed out just below 1000 s; the symbolic-width small variant exceeded 10 GB); not confirmed under load
// @unit name=bitreader_inv_get_batch_u8_fast_w3 props=C05,C08 kind=bounded bound=width=3_batch=8_aligned_state_buffer<=12_bytes fns=BitReader::get_batch,FromBitpacked<u8>::unpack_batch,unpack8 tier=thorough timeout=900 mem=6
#[kani::proof]
#[kani::unwind(2)]
fn bitreader_inv_get_batch_u8_fast_w3() {
    inv_get_batch_u8_fast::<3>()
}
// NOT CONFIRMED: get_batch units are heavy (fast_w1 passed in 992 s with 44507 checks; w3/w8 timed out just below 1000 s; the symbolic-width small variant exceeded 10 GB); not confirmed under load
// @unit name=bitreader_inv_get_batch_u8_fast_w8 props=C05,C08 kind=bounded bound=width=8_batch=8_aligned_state_buffer<=12_bytes fns=BitReader::get_batch,FromBitpacked<u8>::unpack_batch,unpack8 tier=thorough timeout=900 mem=6
#[kani::proof]
#[kani::unwind(2)]
fn bitreader_inv_get_batch_u8_fast_w8() {
    inv_get_batch_u8_fast::<8>()
}

// Contract (C05): get_batch::<T> on the CONCRETE shapes that drive every fast path of the wider element
// types (grid rule: batch length L, width W and buffer length LEN concrete so that the loop structure is
// static; the LEN buffer bytes are fully symbolic). From a fresh reader with L*W <= 8*LEN:
// returns L; batch[i] = the i-th W-bit group of the stream, zero-extended into T (for every i < L);
// the cursor ends at bit L*W. Shapes:
//   u16  L=25  W=3 : unpack16 (16) + unpack8 (8) + 1 trailing get_value
//   u32  L=57  W=1 : unpack32 (32) + unpack16 (16) + unpack8 (8) + 1 trailing
//   i32  L=32  W=5 : the transmuting delegate i32 -> u32
//   u64  L=121 W=1 : unpack64 (64) + unpack32 (32) + unpack16 (16) + unpack8 (8) + 1 trailing
//   bool L=9   W=1 : bool via u8 unpack8 (8) + 1 trailing
macro_rules! get_batch_shape {
    ($name:ident, $t:ty, $l:expr, $w:expr, $len:expr, $zero:expr, $x:ident => $conv:expr) => {
        #[kani::proof]
        #[kani::unwind(66)]
        fn $name() {
            let a: [u8; $len] = kani::any();
            let mut r = BitReader::from(a.to_vec());
            let mut batch: [$t; $l] = [$zero; $l];
            let m = r.get_batch::<$t>(&mut batch, $w);
            assert!(m == $l);
            let i: usize = kani::any();
            kani::assume(i < $l);
            let jb: usize = kani::any();
            kani::assume(jb < 64);
            let $x = batch[i];
            let v: u64 = $conv;
            assert!(b64(v, jb) == (jb < $w && bit(&a, i * $w + jb)));
            assert!(r.byte_offset * 8 + r.bit_offset == $l * $w);
            kani::cover!(i == $l - 1 && v != 0); // last (trailing) value
            kani::cover!(i == 0 && v + 1 == 1u64 << $w);
            std::mem::forget(r);
        }
    };
}
// NOT CONFIRMED: get_batch units are heavy (fast_w1 passed in 992 s with 44507 checks; w3/w8 timed out just below 1000 s; the symbolic-width small variant exceeded 10 GB); not confirmed under load
// @unit name=bitreader_get_batch_u16_paths props=C05 kind=bounded bound=shape_L=25_W=3_LEN=10 fns=BitReader::get_batch,FromBitpacked<u16>::unpack_batch,unpack16,unpack8 tier=thorough timeout=900 mem=6
get_batch_shape!(bitreader_get_batch_u16_paths, u16, 25, 3, 10, 0u16, x => x as u64);
// NOT CONFIRMED: get_batch units are heavy (fast_w1 passed in 992 s with 44507 checks; w3/w8 timed out just below 1000 s; the symbolic-width small variant exceeded 10 GB); not confirmed under load
// @unit name=bitreader_get_batch_u32_paths props=C05 kind=bounded bound=shape_L=57_W=1_LEN=8 fns=BitReader::get_batch,FromBitpacked<u32>::unpack_batch,unpack32,unpack16,unpack8 tier=thorough timeout=900 mem=6
get_batch_shape!(bitreader_get_batch_u32_paths, u32, 57, 1, 8, 0u32, x => x as u64);
// NOT CONFIRMED: get_batch units are heavy (fast_w1 passed in 992 s with 44507 checks; w3/w8 timed out just below 1000 s; the symbolic-width small variant exceeded 10 GB); not confirmed under load
// @unit name=bitreader_get_batch_i32_delegate props=C05 kind=bounded bound=shape_L=32_W=5_LEN=20 fns=BitReader::get_batch,FromBitpacked<i32>::unpack_batch,unpack32 tier=thorough timeout=900 mem=6
get_batch_shape!(bitreader_get_batch_i32_delegate, i32, 32, 5, 20, 0i32, x => x as u32 as u64);
// NOT CONFIRMED: get_batch units are heavy (fast_w1 passed in 992 s with 44507 checks; w3/w8 timed out just below 1000 s; the symbolic-width small variant exceeded 10 GB); not confirmed under load
// @unit name=bitreader_get_batch_u64_paths props=C05 kind=bounded bound=shape_L=121_W=1_LEN=16 fns=BitReader::get_batch,FromBitpacked<u64>::unpack_batch,unpack64,unpack32,unpack16,unpack8 tier=thorough timeout=900 mem=8
get_batch_shape!(bitreader_get_batch_u64_paths, u64, 121, 1, 16, 0u64, x => x);
// NOT CONFIRMED: get_batch units are heavy (fast_w1 passed in 992 s with 44507 checks; w3/w8 timed out just below 1000 s; the symbolic-width small variant exceeded 10 GB); not confirmed under load
// @unit name=bitreader_get_batch_bool_paths props=C05 kind=bounded bound=shape_L=9_W=1_LEN=2 fns=BitReader::get_batch,FromBitpacked<bool>::unpack_batch,unpack8 tier=thorough timeout=900 mem=6
get_batch_shape!(bitreader_get_batch_bool_paths, bool, 9, 1, 2, false, x => x as u64);

// ---------------------------------------------------------------------------------------------
// C05 compress (software PEXT)
// ---------------------------------------------------------------------------------------------

// Contract (C05): compress(value, mask) gathers the bits of `value` selected by `mask` into the low bits,
// in order: for every set mask bit p, result bit rank(p) = value bit p where rank(p) = number of set mask
// bits below p; all result bits at or above popcount(mask) are 0. All u64 x u64 (the loop runs
// popcount(mask) <= 64 times; unwinding assertion on).
// @unit name=compress_def props=C05 kind=complete fns=compress tier=quick timeout=480 mem=3
#[kani::proof]
#[kani::unwind(66)]
fn compress_def() {
    let value: u64 = kani::any();
    let mask: u64 = kani::any();
    let r = compress(value, mask);
    let p: usize = kani::any();
    kani::assume(p < 64);
    // rank by a naive count
    let mut rank = 0usize;
    let mut total = 0usize;
    let mut i = 0;
    while i < 64 {
        if b64(mask, i) {
            if i < p {
                rank += 1;
            }
            total += 1;
        }
        i += 1;
    }
    if b64(mask, p) {
        assert!(b64(r, rank) == b64(value, p));
    }
    assert!(p < total || !b64(r, p));
    kani::cover!(mask == u64::MAX && r == value);
    kani::cover!(mask == 0);
    kani::cover!(total == 3 && r == 0b101 && p == 63 && b64(mask, 63));
}
