// Kani contract harnesses for /repo/parquet/src/util/push_buffers.rs (child module: sees private items via super::)
