// Kani contract harnesses for /repo/parquet/src/util/push_buffers.rs (child module: sees private items via super::)
use super::*;
#[path = "/verif/kani/support/spec.rs"]
mod spec;
use spec::*;
use std::io::Read;

// ---------------------------------------------------------------------------------------------
// C14: PushBuffers is the byte store behind the push decoders; what a decoder sees must depend only on
// WHICH file ranges were pushed, not on the order, duplication or overlap of the pushes.
// Model: an 8-byte "file" with arbitrary contents; each pushed buffer is file[range].
// Grid rule: range bounds are concrete per harness (symbolic bounds size Bytes allocations: 43 GB);
// file contents, push ORDER (a solver-chosen permutation), the query and the read offset are symbolic.
// Every Bytes-bearing value is forgotten (forget rule).
// Stub: alloc::fmt::format (error text is not part of the contract).
// ---------------------------------------------------------------------------------------------

fn push(pb: &mut PushBuffers, file: &[u8; 8], s: u64, e: u64) {
    let b = Bytes::copy_from_slice(&file[s as usize..e as usize]);
    let r = pb.push_range(s..e, b);
    assert!(r.is_ok());
    std::mem::forget(r);
}

/// checks has_range / get_bytes / Read / get_read against the set semantics for the pushed set `rs`
fn check_queries<const K: usize>(pb: &PushBuffers, file: &[u8; 8], rs: [(u64, u64); K]) {
    // an arbitrary well-formed query inside the file
    let qs: u64 = kani::any();
    let qe: u64 = kani::any();
    kani::assume(qs <= qe && qe <= 8);
    let mut inside = false;
    let mut k = 0;
    while k < K {
        if rs[k].0 <= qs && qe <= rs[k].1 {
            inside = true;
        }
        k += 1;
    }
    // has_range(q) <=> some pushed range contains q
    assert!(pb.has_range(&(qs..qe)) == inside);
    // get_bytes(q) = file[q] iff contained; otherwise the typed "need more data" error naming q
    let len = (qe - qs) as usize;
    let got = pb.get_bytes(qs, len);
    match &got {
        Ok(b) => {
            assert!(inside);
            assert!(b.len() == len);
            let i: usize = kani::any();
            kani::assume(i < len);
            assert!(b[i] == file[qs as usize + i]);
        }
        Err(ParquetError::NeedMoreDataRange(r)) => {
            assert!(!inside);
            assert!(r.start == qs && r.end == qe);
        }
        Err(_) => assert!(false),
    }
    kani::cover!(got.is_ok() && len == 0);
    kani::cover!(got.is_ok() && len > 0);
    kani::cover!(got.is_err());
    std::mem::forget(got);
}

/// pushes the K concrete ranges in a solver-chosen order, then checks the queries
fn pushed_set<const K: usize>(rs: [(u64, u64); K]) {
    let file: [u8; 8] = kani::any();
    let mut pb = PushBuffers::new(8);
    assert!(pb.file_len() == 8 && crate::file::reader::Length::len(&pb) == 8);
    // solver-chosen permutation of 0..K
    let mut order = [0usize; K];
    let mut used = [false; K];
    let mut k = 0;
    while k < K {
        let c: usize = kani::any();
        kani::assume(c < K && !used[c]);
        used[c] = true;
        order[k] = c;
        k += 1;
    }
    let mut k = 0;
    while k < K {
        let (s, e) = rs[order[k]];
        push(&mut pb, &file, s, e);
        k += 1;
    }
    check_queries(&pb, &file, rs);
    kani::cover!(K > 1 && order[0] == K - 1);
    kani::cover!(order[0] == 0);
    std::mem::forget(pb);
}

// Contract (C14): Read / ChunkReader::get_read / clear_all_ranges on ONE pushed range 2..6 of an 8-byte
// file: get_read(s) is a reader positioned at s over the same ranges (file_len preserved); read(out[..len])
// delivers exactly file[s..s+len] and advances the offset by len when [s, s+len) lies inside the pushed
// range, otherwise fails with UnexpectedEof leaving offset and output untouched (never a short or stale
// read); after clear_all_ranges no range is reported.
// NOT CONFIRMED under load (the temporary Bytes dropped inside `read` is expensive for CBMC).
// @unit name=push_read_one_range props=C14,C18 kind=bounded bound=range_2..6_file=8_bytes fns=PushBuffers::read,PushBuffers::get_read,PushBuffers::clear_all_ranges,PushBuffers::with_offset tier=thorough timeout=900 mem=8
#[kani::proof]
#[kani::unwind(5)]
#[kani::stub(alloc::fmt::format, stub_format)]
fn push_read_one_range() {
    let file: [u8; 8] = kani::any();
    let mut pb = PushBuffers::new(8);
    push(&mut pb, &file, 2, 6);
    let qs: u64 = kani::any();
    let qe: u64 = kani::any();
    kani::assume(qs <= qe && qe <= 8);
    let inside = 2 <= qs && qe <= 6;
    let len = (qe - qs) as usize;
    // Read on a positioned clone: fills the whole buffer with file[qs..qe] and advances, or fails with
    // UnexpectedEof leaving offset and output untouched
    let mut rd = match pb.get_read(qs) {
        Ok(r) => r,
        Err(_) => {
            assert!(false);
            return;
        }
    };
    assert!(rd.offset == qs && rd.file_len() == pb.file_len());
    let init: [u8; 8] = kani::any();
    let mut out = init;
    let r = rd.read(&mut out[..len]);
    match &r {
        Ok(n) => {
            assert!(inside && *n == len && rd.offset == qe);
            let i: usize = kani::any();
            kani::assume(i < 8);
            assert!(out[i] == if i < len { file[qs as usize + i] } else { init[i] });
        }
        Err(e) => {
            assert!(!inside && e.kind() == std::io::ErrorKind::UnexpectedEof);
            assert!(rd.offset == qs);
            let i: usize = kani::any();
            kani::assume(i < 8);
            assert!(out[i] == init[i]);
        }
    }
    std::mem::forget(r);
    std::mem::forget(rd);
    pb.clear_all_ranges();
    assert!(!pb.has_range(&(qs..qe)));
    kani::cover!(inside && len == 4);
    kani::cover!(inside && len == 0);
    kani::cover!(!inside && qs == 1);
    std::mem::forget(pb);
}

macro_rules! push_grid {
    ($name:ident, $rs:expr) => {
        #[kani::proof]
        #[kani::unwind(5)]
        #[kani::stub(alloc::fmt::format, stub_format)]
        fn $name() {
            pushed_set($rs)
        }
    };
}
// Contract (C14): for the pushed range set below (any push order, arbitrary file contents):
// has_range(q) <=> some pushed range contains q, for every q inside the file; get_bytes(q) = file[q] when
// contained and Err(NeedMoreDataRange(q)) otherwise. (Read / get_read / clear_all_ranges: push_read_one_range.
// A first version that also ran get_read + Read::read in these units did not finish in 900 s: `read` drops
// a temporary Bytes inside the callee and get_read clones the Vec<Bytes>.)
// NOT CONFIRMED: the previous form (which also ran get_read + Read::read) timed out at 900 s under load; this lighter form has not been run yet
// @unit name=push_disjoint props=C14 kind=bounded bound=ranges_{0..3,5..8}_file=8_bytes fns=PushBuffers::push_range,PushBuffers::has_range,PushBuffers::get_bytes,PushBuffers::new,PushBuffers::file_len tier=thorough timeout=900 mem=4
push_grid!(push_disjoint, [(0, 3), (5, 8)]);
// NOT CONFIRMED: the previous form (which also ran get_read + Read::read) timed out at 900 s under load; this lighter form has not been run yet
// @unit name=push_adjacent props=C14 kind=bounded bound=ranges_{0..4,4..8}_file=8_bytes fns=PushBuffers::push_range,PushBuffers::has_range,PushBuffers::get_bytes tier=thorough timeout=900 mem=4
push_grid!(push_adjacent, [(0, 4), (4, 8)]);
// NOT CONFIRMED: the previous form (which also ran get_read + Read::read) timed out at 900 s under load; this lighter form has not been run yet
// @unit name=push_overlapping props=C14 kind=bounded bound=ranges_{1..5,3..7}_file=8_bytes fns=PushBuffers::push_range,PushBuffers::has_range,PushBuffers::get_bytes tier=thorough timeout=900 mem=4
push_grid!(push_overlapping, [(1, 5), (3, 7)]);
// NOT CONFIRMED: the previous form (which also ran get_read + Read::read) timed out at 900 s under load; this lighter form has not been run yet
// @unit name=push_nested_duplicate props=C14 kind=bounded bound=ranges_{2..6,0..8,2..6}_file=8_bytes fns=PushBuffers::push_range,PushBuffers::has_range,PushBuffers::get_bytes tier=thorough timeout=900 mem=6
push_grid!(push_nested_duplicate, [(2, 6), (0, 8), (2, 6)]);
// NOT CONFIRMED: the previous form (which also ran get_read + Read::read) timed out at 900 s under load; this lighter form has not been run yet
// @unit name=push_three_mixed props=C14 kind=bounded bound=ranges_{0..2,2..2,1..8}_file=8_bytes fns=PushBuffers::push_range,PushBuffers::has_range,PushBuffers::get_bytes tier=thorough timeout=900 mem=6
push_grid!(push_three_mixed, [(0, 2), (2, 2), (1, 8)]);

// Contract (C14, C18): push_range rejects a buffer whose length differs from the range length (a short
// read) — Err, and the store is unchanged (the range is NOT advertised by has_range); it accepts exactly
// when |buffer| = end - start (saturating, so an inverted range only matches an empty buffer).
// push_ranges rejects mismatched vector lengths. Buffer of concrete length 3; range bounds symbolic.
// @unit name=push_range_length_check props=C14,C18 kind=bounded bound=buffer=3_bytes fns=PushBuffers::push_range timeout=480 mem=4
#[kani::proof]
#[kani::unwind(5)]
#[kani::stub(alloc::fmt::format, stub_format)]
fn push_range_length_check() {
    let data: [u8; 3] = kani::any();
    let mut pb = PushBuffers::new(100);
    let s: u64 = kani::any();
    let e: u64 = kani::any();
    let r = pb.push_range(s..e, Bytes::copy_from_slice(&data));
    let matches = e >= s && e - s == 3;
    assert!(r.is_ok() == matches);
    assert!(pb.has_range(&(s..e)) == matches);
    assert!(pb.ranges.len() == pb.buffers.len() && pb.ranges.len() == matches as usize);
    kani::cover!(matches);
    kani::cover!(!matches && e > s);
    kani::cover!(!matches && e < s);
    std::mem::forget(r);
    std::mem::forget(pb);
}

// Contract (C14): push_ranges(ranges, buffers) = push_range on each pair in order; Err (nothing usable
// promised) when the two vectors differ in length.
// NOT CONFIRMED: the previous form (which also ran get_read + Read::read) timed out at 900 s under load; this lighter form has not been run yet
// @unit name=push_ranges_pairs props=C14 kind=bounded bound=2_ranges_{0..3,5..8} fns=PushBuffers::push_ranges timeout=900 mem=4 tier=thorough
#[kani::proof]
#[kani::unwind(5)]
#[kani::stub(alloc::fmt::format, stub_format)]
fn push_ranges_pairs() {
    let file: [u8; 8] = kani::any();
    let mut pb = PushBuffers::new(8);
    let drop_one: bool = kani::any();
    let ranges = vec![0..3u64, 5..8u64];
    // (the mismatching case passes no buffers at all, so that no Bytes is dropped inside the callee: forget rule)
    let mut buffers = Vec::with_capacity(2);
    if !drop_one {
        buffers.push(Bytes::copy_from_slice(&file[0..3]));
        buffers.push(Bytes::copy_from_slice(&file[5..8]));
    }
    let r = pb.push_ranges(ranges, buffers);
    assert!(r.is_ok() == !drop_one);
    if r.is_ok() {
        check_queries(&pb, &file, [(0, 3), (5, 8)]);
    } else {
        assert!(pb.ranges.is_empty() && pb.buffers.is_empty());
    }
    kani::cover!(r.is_ok());
    kani::cover!(r.is_err());
    std::mem::forget(r);
    std::mem::forget(pb);
}
