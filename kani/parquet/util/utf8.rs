// Kani contract harnesses for /repo/parquet/src/util/utf8.rs (child module: sees private items via super::)
use super::*;
#[path = "/verif/kani/support/spec.rs"]
mod spec;
#[allow(unused_imports)]
use spec::*;

fn is_continuation(b: u8) -> bool { b & 0xC0 == 0x80 }
/// RFC 3629 well-formedness (Unicode Table 3-7), table walk
fn wf_utf8(b: &[u8]) -> bool {
    let n = b.len(); let mut i = 0;
    while i < n {
        let b0 = b[i];
        let (need, lo, hi) =
            if b0 < 0x80 { (0, 0x80, 0xBF) }
            else if b0 >= 0xC2 && b0 <= 0xDF { (1, 0x80, 0xBF) }
            else if b0 == 0xE0 { (2, 0xA0, 0xBF) }
            else if (b0 >= 0xE1 && b0 <= 0xEC) || b0 == 0xEE || b0 == 0xEF { (2, 0x80, 0xBF) }
            else if b0 == 0xED { (2, 0x80, 0x9F) }
            else if b0 == 0xF0 { (3, 0x90, 0xBF) }
            else if b0 >= 0xF1 && b0 <= 0xF3 { (3, 0x80, 0xBF) }
            else if b0 == 0xF4 { (3, 0x80, 0x8F) }
            else { return false; };
        if i + need >= n && need > 0 { return false; }
        if need >= 1 && !(b[i + 1] >= lo && b[i + 1] <= hi) { return false; }
        if need >= 2 && !is_continuation(b[i + 2]) { return false; }
        if need >= 3 && !is_continuation(b[i + 3]) { return false; }
        i += need + 1;
    }
    true
}

// Contract (C08): check_valid_utf8(bytes) = Ok <=> bytes is well-formed UTF-8 per RFC 3629 / Unicode Table 3-7
// (no overlong forms, no surrogates, nothing above U+10FFFF, no truncated sequence), for every byte string of
// exactly N bytes. (Under Kani the crate is built with simdutf8 without its `std` feature, i.e. the portable fallback.)
macro_rules! check_utf8_unit {
    ($name:ident, $n:expr) => {
        #[kani::proof]
        #[kani::unwind(7)]
        #[kani::stub(alloc::fmt::format, stub_format)]
        fn $name() {
            let b: [u8; $n] = kani::any();
            let r = check_valid_utf8(&b);
            let ok = r.is_ok();
            std::mem::forget(r);
            assert!(ok == wf_utf8(&b));
            kani::cover!(ok && b[0] >= 0x80);
            kani::cover!(!ok);
        }
    };
}
// @unit name=check_valid_utf8_len2 props=C08 kind=bounded bound=2_bytes fns=check_valid_utf8 timeout=600 tier=thorough
check_utf8_unit!(check_valid_utf8_len2, 2);
// @unit name=check_valid_utf8_len4 props=C08 kind=bounded bound=4_bytes fns=check_valid_utf8 timeout=900 mem=4 tier=thorough
check_utf8_unit!(check_valid_utf8_len4, 4);
