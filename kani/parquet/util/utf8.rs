// Kani contract harnesses for /repo/parquet/src/util/utf8.rs (child module: sees private items via super::)
