// Kani contract harnesses for /repo/parquet/src/arrow/buffer/offset_buffer.rs (child module: sees private items via super::)
