// Kani contract harnesses for /repo/parquet/src/arrow/buffer/offset_buffer.rs (child module: sees private items via super::)
use super::*;
#[path = "/verif/kani/support/spec.rs"]
mod spec;
#[allow(unused_imports)]
use spec::*;

fn is_continuation(b: u8) -> bool { b & 0xC0 == 0x80 }

// Contract (C08): OffsetBuffer::<i32>::try_push on arbitrary bytes, any sequence of three pushes of L1, L2, L3 bytes
// (lengths concrete per harness, contents and the validate flags symbolic):
//   Err <=> validate_utf8 and the first byte of the value is a UTF-8 continuation byte (10xxxxxx) -- a code point split
//   at a value boundary; an Err leaves offsets and values untouched (frame);
//   after the sequence offsets = [0, prefix sums of the accepted lengths] (monotone, last = len(values)) and values is
//   the concatenation of the accepted values.
macro_rules! try_push_unit {
    ($name:ident, $l1:expr, $l2:expr, $l3:expr) => {
        #[kani::proof]
        #[kani::unwind(8)]
        #[kani::stub(alloc::fmt::format, stub_format)]
        fn $name() {
            let (a, b, c): ([u8; $l1], [u8; $l2], [u8; $l3]) = (kani::any(), kani::any(), kani::any());
            let (va, vb, vc): (bool, bool, bool) = (kani::any(), kani::any(), kani::any());
            let mut buf = OffsetBuffer::<i32>::with_capacity(0);
            assert!(buf.len() == 0 && buf.is_empty() && buf.offsets.len() == 1 && buf.offsets[0] == 0);
            let mut exp_off = [0i32; 4]; let mut exp_n = 1usize; let mut exp_len = 0usize;
            let mut exp_bytes = [0u8; $l1 + $l2 + $l3 + 1];
            macro_rules! step { ($d:expr, $v:expr) => {{
                let d: &[u8] = &$d;
                let reject = $v && d.len() > 0 && is_continuation(d[0]);
                match buf.try_push(d, $v) {
                    Ok(()) => {
                        assert!(!reject);
                        let mut i = 0; while i < d.len() { exp_bytes[exp_len + i] = d[i]; i += 1; }
                        exp_len += d.len(); exp_off[exp_n] = exp_len as i32; exp_n += 1;
                    }
                    Err(e) => { std::mem::forget(e); assert!(reject); }
                }
                assert!(buf.offsets.len() == exp_n && buf.len() == exp_n - 1 && buf.values.len() == exp_len);
            }}; }
            step!(a, va); step!(b, vb); step!(c, vc);
            let i: usize = kani::any(); kani::assume(i < exp_n);
            assert!(buf.offsets[i] == exp_off[i]);
            if i > 0 { assert!(buf.offsets[i - 1] <= buf.offsets[i]); }
            assert!(buf.offsets[exp_n - 1] as usize == buf.values.len());
            let j: usize = kani::any();
            if j < exp_len { assert!(buf.values[j] == exp_bytes[j]); }
            kani::cover!(exp_n == 4);                                       // everything accepted
            let empties = ($l1 == 0) as usize + ($l2 == 0) as usize + ($l3 == 0) as usize;
            kani::cover!(exp_n == 1 + empties);                             // every non-empty value rejected (empty values always pass)
            kani::cover!(exp_n == 3);
        }
    };
}
// @unit name=try_push_4_4_4 props=C08 kind=bounded bound=3_pushes_of_4_bytes fns=OffsetBuffer::try_push,OffsetBuffer::with_capacity,OffsetBuffer::len timeout=600
try_push_unit!(try_push_4_4_4, 4, 4, 4);
// @unit name=try_push_1_3_2 props=C08 kind=bounded bound=3_pushes_of_1,3,2_bytes fns=OffsetBuffer::try_push timeout=600 tier=thorough
try_push_unit!(try_push_1_3_2, 1, 3, 2);
// @unit name=try_push_2_0_4 props=C08 kind=bounded bound=3_pushes_of_2,0,4_bytes fns=OffsetBuffer::try_push timeout=600 tier=thorough
try_push_unit!(try_push_2_0_4, 2, 0, 4);

/// RFC 3629 well-formedness of a byte string (Unicode Table 3-7), written as a table walk
fn wf_utf8(b: &[u8]) -> bool {
    let n = b.len(); let mut i = 0;
    while i < n {
        let b0 = b[i];
        let (need, lo, hi) =
            if b0 < 0x80 { (0, 0x80, 0xBF) }
            else if b0 >= 0xC2 && b0 <= 0xDF { (1, 0x80, 0xBF) }
            else if b0 == 0xE0 { (2, 0xA0, 0xBF) }
            else if (b0 >= 0xE1 && b0 <= 0xEC) || b0 == 0xEE || b0 == 0xEF { (2, 0x80, 0xBF) }
            else if b0 == 0xED { (2, 0x80, 0x9F) }
            else if b0 == 0xF0 { (3, 0x90, 0xBF) }
            else if b0 >= 0xF1 && b0 <= 0xF3 { (3, 0x80, 0xBF) }
            else if b0 == 0xF4 { (3, 0x80, 0x8F) }
            else { return false; };
        if i + need >= n && need > 0 { return false; }
        if need >= 1 && !(b[i + 1] >= lo && b[i + 1] <= hi) { return false; }
        if need >= 2 && !is_continuation(b[i + 2]) { return false; }
        if need >= 3 && !is_continuation(b[i + 3]) { return false; }
        i += need + 1;
    }
    true
}

// Contract (C08): the two-level UTF-8 validation of the byte-array reader is sound: if every value was pushed with
// validate_utf8 = true (so no value starts with a continuation byte) and check_valid_utf8(0) accepts the concatenation,
// then EVERY individual value is well-formed UTF-8 (RFC 3629) -- no code point is split across a value boundary; and
// conversely well-formed values are accepted by both checks. Two values of L1 and L2 arbitrary bytes.
macro_rules! utf8_boundary_unit {
    ($name:ident, $l1:expr, $l2:expr) => {
        #[kani::proof]
        #[kani::unwind(8)]
        #[kani::stub(alloc::fmt::format, stub_format)]
        fn $name() {
            let (a, b): ([u8; $l1], [u8; $l2]) = (kani::any(), kani::any());
            let mut buf = OffsetBuffer::<i32>::with_capacity(0);
            let pa = buf.try_push(&a, true); let pb = buf.try_push(&b, true);
            let pushed = pa.is_ok() && pb.is_ok();
            std::mem::forget(pa); std::mem::forget(pb);
            let chk = buf.check_valid_utf8(0);
            let accepted = pushed && chk.is_ok();
            std::mem::forget(chk);
            let each_wf = wf_utf8(&a) && wf_utf8(&b);
            assert!(accepted == each_wf);
            kani::cover!(accepted && a[0] >= 0xE0);
            kani::cover!(!pushed);
            kani::cover!(pushed && !accepted);
        }
    };
}
// @unit name=utf8_value_boundary_2_2 props=C08 kind=bounded bound=2_values_of_2_bytes fns=OffsetBuffer::try_push,OffsetBuffer::check_valid_utf8,check_valid_utf8 timeout=900 mem=4 tier=thorough confirmed=no_(not_seen_to_finish_under_load)
utf8_boundary_unit!(utf8_value_boundary_2_2, 2, 2);
// @unit name=utf8_value_boundary_3_1 props=C08 kind=bounded bound=values_of_3_and_1_bytes fns=OffsetBuffer::try_push,OffsetBuffer::check_valid_utf8,check_valid_utf8 timeout=900 mem=4 tier=thorough confirmed=no_(not_seen_to_finish_under_load)
utf8_boundary_unit!(utf8_value_boundary_3_1, 3, 1);
// @unit name=utf8_value_boundary_1_3 props=C08 kind=bounded bound=values_of_1_and_3_bytes fns=OffsetBuffer::try_push,OffsetBuffer::check_valid_utf8,check_valid_utf8 timeout=900 mem=4 tier=thorough confirmed=no_(not_seen_to_finish_under_load)
utf8_boundary_unit!(utf8_value_boundary_1_3, 1, 3);

// Contract (C08): extend_from_dictionary(keys, dict_offsets, dict_values) on a well-formed dictionary (offsets start at 0,
// monotone, within dict_values: "verified when decoding the dictionary page") and 2 keys:
//   Err <=> some key k is not a valid entry index, i.e. (k as usize) + 1 >= len(dict_offsets);
//   Ok  => one offset per key was appended, offsets are the prefix sums of the selected entry lengths and values is
//   the concatenation of the selected dictionary entries; the call never panics.
// Keys are i32 decoded from untrusted page bytes with an RLE bit width of up to 32, so every i32 can occur:
//  - `extend_from_dictionary_2keys`: keys >= 0 (or any negative key other than -1 is fine too; stated for keys >= 0);
//  - `extend_from_dictionary_untrusted_keys`: ALL i32 keys. This unit FAILS on the unchanged tree (finding F5): for the
//    key -1 (0xFFFF_FFFF) `index + 1` overflows (debug: panic "attempt to add with overflow"; release: wraps to 0, the
//    bounds test passes and `dict_offsets[usize::MAX]` panics) instead of returning Err.
macro_rules! extend_dict_unit {
    ($name:ident, $any_keys:expr) => {
        #[kani::proof]
        #[kani::unwind(8)]
        #[kani::stub(alloc::fmt::format, stub_format)]
        fn $name() {
            let keys: [i32; 2] = kani::any();
            if !$any_keys { kani::assume(keys[0] >= 0 && keys[1] >= 0); }
            let dict_values: [u8; 4] = kani::any();
            let dict_offsets: [i32; 3] = kani::any();
            kani::assume(dict_offsets[0] == 0 && dict_offsets[0] <= dict_offsets[1] && dict_offsets[1] <= dict_offsets[2] && dict_offsets[2] <= 4);
            let mut buf = OffsetBuffer::<i32>::with_capacity(0);
            let in_range = |k: i32| k >= 0 && k < 2;
            match buf.extend_from_dictionary(&keys, &dict_offsets, &dict_values) {
                Ok(()) => {
                    assert!(in_range(keys[0]) && in_range(keys[1]));
                    let (s0, e0) = (dict_offsets[keys[0] as usize], dict_offsets[keys[0] as usize + 1]);
                    let (s1, e1) = (dict_offsets[keys[1] as usize], dict_offsets[keys[1] as usize + 1]);
                    assert!(buf.offsets.len() == 3 && buf.offsets[0] == 0 && buf.offsets[1] == e0 - s0 && buf.offsets[2] == (e0 - s0) + (e1 - s1));
                    assert!(buf.values.len() == buf.offsets[2] as usize);
                    let j: usize = kani::any();
                    let l0 = (e0 - s0) as usize;
                    if j < buf.values.len() { assert!(buf.values[j] == if j < l0 { dict_values[s0 as usize + j] } else { dict_values[s1 as usize + j - l0] }); }
                    kani::cover!(keys[0] == 1 && keys[1] == 0 && buf.values.len() == 4);
                }
                Err(e) => { std::mem::forget(e); assert!(!(in_range(keys[0]) && in_range(keys[1]))); kani::cover!(keys[1] == 2); kani::cover!(keys[0] == i32::MAX); }
            }
        }
    };
}
// @unit name=extend_from_dictionary_2keys props=C08 kind=bounded bound=2_non-negative_keys_2_dictionary_entries_<=4_bytes fns=OffsetBuffer::extend_from_dictionary timeout=900 mem=4 tier=thorough
extend_dict_unit!(extend_from_dictionary_2keys, false);
// @unit name=extend_from_dictionary_untrusted_keys props=C08 kind=bounded bound=2_arbitrary_i32_keys_2_dictionary_entries_<=4_bytes fns=OffsetBuffer::extend_from_dictionary timeout=900 mem=4
extend_dict_unit!(extend_from_dictionary_untrusted_keys, true);
