// Kani contract harnesses for /repo/parquet/src/arrow/arrow_writer/levels.rs (child module: sees private items via super::)
