// Kani contract harnesses for /repo/parquet/src/arrow/arrow_reader/selection/boolean.rs (child module: sees private items via super::)
use super::*;
#[path = "/verif/kani/support/spec.rs"]
mod spec;
#[allow(unused_imports)]
use spec::*;

// Contract (C06/C19): set_bit_run(buf, start, len) sets exactly the bits [start, start+len) of the little-endian bitmap
// and changes nothing else (frame), for every start/len with start + len <= 8*len(buf); symbolic positions on a raw
// 4-byte slice (no allocation).
// @unit name=set_bit_run_contract props=C06 kind=bounded bound=4_byte_bitmap_any_start_len fns=set_bit_run timeout=300
#[kani::proof]
#[kani::unwind(6)]
fn set_bit_run_contract() {
    let old: [u8; 4] = kani::any();
    let mut buf = old;
    let (start, len): (usize, usize) = (kani::any(), kani::any());
    kani::assume(start <= 32 && len <= 32 - start);
    set_bit_run(&mut buf, start, len);
    let i: usize = kani::any(); kani::assume(i < 32);
    assert!(bit(&buf, i) == (bit(&old, i) || (i >= start && i < start + len)));
    kani::cover!(len == 0); kani::cover!(start % 8 != 0 && (start + len) / 8 > start / 8 + 1); kani::cover!(len > 1 && start / 8 == (start + len - 1) / 8);
}

// Contract (C06): boolean_mask_from_selectors(runs) is the bitmap of the view: len = total(runs) and bit p is set iff
// position p is selected. Two runs of symbolic lengths <= 12 each.
// @unit name=boolean_mask_from_selectors_2runs props=C06 kind=bounded bound=2_runs_each_<=12_rows fns=boolean_mask_from_selectors,set_bit_run timeout=600 mem=4
#[kani::proof]
#[kani::unwind(6)]
fn boolean_mask_from_selectors_2runs() {
    let (c0, c1): (usize, usize) = (kani::any(), kani::any());
    kani::assume(c0 <= 12 && c1 <= 12);
    let runs = [RowSelector { row_count: c0, skip: kani::any() }, RowSelector { row_count: c1, skip: kani::any() }];
    let m = boolean_mask_from_selectors(&runs);
    assert!(m.len() == c0 + c1 && m.offset() == 0);
    let p: usize = kani::any(); kani::assume(p < c0 + c1);
    let expect = if p < c0 { !runs[0].skip } else { !runs[1].skip };
    assert!(m.value(p) == expect);
    kani::cover!(c0 + c1 == 24 && expect); kani::cover!(c0 == 0 && c1 == 9); kani::cover!(!expect);
}

fn mask_of<const B: usize>(bytes: [u8; B], offset: usize, len: usize) -> BooleanBuffer {
    BooleanBuffer::new(Buffer::from(bytes.to_vec()), offset, len)
}

// Contract (C06): split_off_mask(mask, n) = (head, tail): len(head) = min(n, len), len(head) + len(tail) = len, and
// head[i] = mask[i], tail[i] = mask[len(head) + i]. trim_mask(mask): None <=> mask is empty or its last bit is set;
// Some(t) <=> t is the prefix of mask ending at its last set bit (empty if no bit is set): no selected position lost.
macro_rules! split_trim_mask_unit {
    ($name:ident, $off:expr, $len:expr) => {
        #[kani::proof]
        #[kani::unwind(20)]
        fn $name() {
            let m = mask_of::<4>(kani::any(), $off, $len);
            let n: usize = kani::any();
            let (head, tail) = split_off_mask(m.clone(), n);
            let hl = if n < $len { n } else { $len };
            assert!(head.len() == hl && tail.len() == $len - hl);
            let i: usize = kani::any(); kani::assume(i < $len);
            if i < hl { assert!(head.value(i) == m.value(i)); } else { assert!(tail.value(i - hl) == m.value(i)); }
            kani::cover!(n == 0); kani::cover!(n > $len); kani::cover!(n > 0 && n < $len);
            // trim
            let mut last: Option<usize> = None; let mut k = 0;
            while k < $len { if m.value(k) { last = Some(k); } k += 1; }
            match trim_mask(&m) {
                None => assert!($len == 0 || m.value($len - 1)),
                Some(t) => {
                    assert!($len > 0 && !m.value($len - 1));
                    assert!(t.len() == match last { Some(l) => l + 1, None => 0 });
                    if i < t.len() { assert!(t.value(i) == m.value(i)); } else { assert!(!m.value(i)); }
                    kani::cover!(t.len() == 0); kani::cover!(t.len() > 8);
                }
            }
        }
    };
}
// @unit name=split_trim_mask_3_13 props=C06 kind=bounded bound=grid_offset_3_len_13 fns=split_off_mask,trim_mask,last_set_bit_position timeout=600 mem=4 tier=thorough
split_trim_mask_unit!(split_trim_mask_3_13, 3, 13);
// @unit name=split_trim_mask_9_17 props=C06 kind=bounded bound=grid_offset_9_len_17 fns=split_off_mask,trim_mask,last_set_bit_position timeout=600 mem=4 tier=thorough
split_trim_mask_unit!(split_trim_mask_9_17, 9, 17);

// Contract (C06): mask_to_selectors(mask) and MaskRunIter(mask) denote the same set as the bitmap: the runs are
// canonical (non-empty, alternating), their total is len(mask), and position p is selected iff mask[p].
macro_rules! mask_runs_unit {
    ($name:ident, $off:expr, $len:expr) => {
        #[kani::proof]
        #[kani::unwind(12)]
        fn $name() {
            let m = mask_of::<2>(kani::any(), $off, $len);
            let v = mask_to_selectors(&m);
            let p: usize = kani::any(); kani::assume(p < $len);
            let (mut start, mut found, mut k) = (0usize, false, 0usize);
            while k < v.len() {
                assert!(v[k].row_count > 0 && (k == 0 || v[k - 1].skip != v[k].skip));
                if p >= start && p < start + v[k].row_count { found = true; assert!(!v[k].skip == m.value(p)); }
                start += v[k].row_count; k += 1;
            }
            assert!(found && start == $len);
            // the lazy iterator yields the same runs
            let mut it = MaskRunIter::new(&m); let mut k = 0;
            while k < v.len() { assert!(it.next() == Some(v[k])); k += 1; }
            assert!(it.next().is_none());
            kani::cover!(v.len() == 1); kani::cover!(v.len() >= 5);
        }
    };
}
// @unit name=mask_to_selectors_2_9 props=C06 kind=bounded bound=grid_offset_2_len_9 fns=mask_to_selectors,MaskRunIter::next tier=thorough timeout=1800 mem=8 confirmed=no_(not_seen_to_finish_under_load)
mask_runs_unit!(mask_to_selectors_2_9, 2, 9);

/// number of set bits of m strictly below position p
fn mask_rank(m: &BooleanBuffer, p: usize) -> usize { let mut r = 0; let mut i = 0; while i < p && i < m.len() { if m.value(i) { r += 1; } i += 1; } r }

// Contract (C06): limit_mask(mask, k) keeps exactly the first k selected positions: the result is a prefix of mask
// (out[p] = mask[p] for p < len(out)), it contains min(k, popcount) set bits and, if popcount > k, nothing after the
// k-th set bit:  for every p < len(mask): (p < len(out) and out[p]) <=> mask[p] and rank(mask, p) < k.
// offset_mask(mask, k, popcount) clears exactly the first k selected positions: empty if k >= popcount, otherwise
// len(out) = len(mask) and out[p] <=> mask[p] and rank(mask, p) >= k.
macro_rules! limit_offset_mask_unit {
    ($name:ident, $off:expr, $len:expr) => {
        #[kani::proof]
        #[kani::unwind(14)]
        #[kani::stub(alloc::fmt::format, stub_format)]
        fn $name() {
            let m = mask_of::<2>(kani::any(), $off, $len);
            let k: usize = kani::any();
            let pop = mask_rank(&m, $len);
            let p: usize = kani::any(); kani::assume(p < $len);
            let lim = limit_mask(m.clone(), k);
            assert!(lim.len() <= $len);
            assert!((p < lim.len() && lim.value(p)) == (m.value(p) && mask_rank(&m, p) < k));
            if p < lim.len() { assert!(lim.value(p) == m.value(p)); }
            let off = offset_mask(m.clone(), k, pop);
            if k >= pop { assert!(off.len() == 0); } else {
                assert!(off.len() == $len);
                assert!(off.value(p) == (m.value(p) && mask_rank(&m, p) >= k));
            }
            kani::cover!(k > 0 && k < pop); kani::cover!(k >= pop && pop > 0); kani::cover!(k == 0);
        }
    };
}
// @unit name=limit_offset_mask_3_10 props=C06 kind=bounded bound=grid_offset_3_len_10 fns=limit_mask,offset_mask tier=thorough timeout=1800 mem=8 confirmed=no_(not_seen_to_finish_under_load)
limit_offset_mask_unit!(limit_offset_mask_3_10, 3, 10);
