// Kani contract harnesses for /repo/parquet/src/arrow/arrow_reader/selection/algebra.rs (child module: sees private items via super::)
//
// View (C06): as in selector.rs -- `sel(v, p)`: is row position p selected (false beyond the end), `total(v)`,
// `rank(v, p)`: number of selected positions below p. Checked pointwise at a symbolic position p; run lengths are
// unbounded (each <= usize::MAX/16), the NUMBER of runs of each operand is concrete per harness.
use super::*;
#[path = "/verif/kani/support/spec.rs"]
mod spec;
#[allow(unused_imports)]
use spec::*;
use arrow_buffer::Buffer;

const RUN_MAX: usize = usize::MAX >> 4;

fn total(v: &[RowSelector]) -> usize { let mut t = 0usize; for s in v { t += s.row_count; } t }
fn selected_total(v: &[RowSelector]) -> usize { let mut t = 0usize; for s in v { if !s.skip { t += s.row_count; } } t }
fn sel(v: &[RowSelector], p: usize) -> bool {
    let mut start = 0usize;
    for s in v { if p < start + s.row_count { return !s.skip; } start += s.row_count; }
    false
}
fn rank(v: &[RowSelector], p: usize) -> usize {
    let (mut start, mut r) = (0usize, 0usize);
    for s in v {
        if p <= start { break; }
        let covered = if p - start < s.row_count { p - start } else { s.row_count };
        if !s.skip { r += covered; }
        start += s.row_count;
    }
    r
}
fn any_runs<const N: usize>(nonzero: bool) -> [RowSelector; N] {
    let mut a = [RowSelector { row_count: 0, skip: false }; N];
    let mut i = 0;
    while i < N {
        let c: usize = kani::any(); kani::assume(c <= RUN_MAX && (!nonzero || c > 0));
        a[i] = RowSelector { row_count: c, skip: kani::any() }; i += 1;
    }
    a
}
/// the run-length representation inside a RowSelection produced by the run-length algebra
fn runs_of(r: &RowSelection) -> &[RowSelector] {
    match &r.inner { RowSelectionInner::Selectors(s) => s.as_slice(), RowSelectionInner::Mask(_) => panic!("expected runs") }
}
/// canonical form produced by `FromIterator<RowSelector>`: no empty run, adjacent runs alternate
fn canonical(v: &[RowSelector]) -> bool {
    let mut i = 0;
    while i < v.len() { if v[i].row_count == 0 || (i > 0 && v[i - 1].skip == v[i].skip) { return false; } i += 1; }
    true
}

// Contract (C06): intersect_row_selections(a, b) = r with total(r) = max(total(a), total(b)) and for every position p:
//   p < min(total(a), total(b)):  sel(r, p) <=> sel(a, p) and sel(b, p);
//   otherwise the longer operand's tail passes through (documented behaviour of RowSelection::intersection):
//   sel(r, p) <=> sel(longer, p).   r is in canonical form (no empty runs, alternating).
macro_rules! intersect_unit {
    ($name:ident, $na:expr, $nb:expr, $unw:expr) => {
        #[kani::proof]
        #[kani::unwind($unw)]
        fn $name() {
            let a = any_runs::<$na>(false); let b = any_runs::<$nb>(false);
            let r = intersect_row_selections(&a, &b);
            let rv = runs_of(&r);
            let (ta, tb) = (total(&a), total(&b));
            assert!(total(rv) == if ta > tb { ta } else { tb });
            assert!(canonical(rv));
            let p: usize = kani::any();
            let expect = if p < ta && p < tb { sel(&a, p) && sel(&b, p) } else { sel(&a, p) || sel(&b, p) };
            assert!(sel(rv, p) == expect);
            kani::cover!(p < ta && p < tb && expect);
            kani::cover!(p >= ta && expect);                        // right tail passes through
            kani::cover!(p >= tb && expect);                        // left tail passes through
            kani::cover!(a[0].row_count == 0 && ta > 0 || $na == 1); // empty runs are skipped
            kani::cover!(b[0].row_count == 0);
            kani::cover!($na + $nb < 3 || rv.len() >= 3);
            std::mem::forget(r);
        }
    };
}
// @unit name=intersect_row_selections_1_1 props=C06 kind=bounded bound=1+1_runs_(lengths_unbounded) fns=intersect_row_selections timeout=600 tier=thorough confirmed=no_(not_seen_to_finish_under_load)
intersect_unit!(intersect_row_selections_1_1, 1, 1, 5);
// @unit name=intersect_row_selections_2_1 props=C06 kind=bounded bound=2+1_runs_(lengths_unbounded) fns=intersect_row_selections mem=4 timeout=900 tier=thorough confirmed=no_(not_seen_to_finish_under_load)
intersect_unit!(intersect_row_selections_2_1, 2, 1, 6);
// @unit name=intersect_row_selections_2_2 props=C06 kind=bounded bound=2+2_runs_(lengths_unbounded) fns=intersect_row_selections tier=thorough mem=8 timeout=1800 confirmed=no_(not_seen_to_finish_under_load)
intersect_unit!(intersect_row_selections_2_2, 2, 2, 7);

// Contract (C06): union_row_selections(a, b) = r with total(r) = max(total(a), total(b)) and for every position p:
//   sel(r, p) <=> sel(a, p) or sel(b, p)   (beyond the shorter operand the longer one passes through, which is the
//   same formula since sel is false beyond the end).  r is in canonical form.
macro_rules! union_unit {
    ($name:ident, $na:expr, $nb:expr, $unw:expr) => {
        #[kani::proof]
        #[kani::unwind($unw)]
        fn $name() {
            let a = any_runs::<$na>(false); let b = any_runs::<$nb>(false);
            let r = union_row_selections(&a, &b);
            let rv = runs_of(&r);
            let (ta, tb) = (total(&a), total(&b));
            assert!(total(rv) == if ta > tb { ta } else { tb });
            assert!(canonical(rv));
            let p: usize = kani::any();
            assert!(sel(rv, p) == (sel(&a, p) || sel(&b, p)));
            kani::cover!(sel(&a, p) && !sel(&b, p) && p < tb);       // (select, skip)
            kani::cover!(!sel(&a, p) && sel(&b, p) && p < ta);       // (skip, select)
            kani::cover!(sel(&a, p) && sel(&b, p));                  // (select, select)
            kani::cover!(!sel(&a, p) && !sel(&b, p) && p < ta && p < tb);   // (skip, skip)
            kani::cover!(p >= ta && sel(&b, p)); kani::cover!(p >= tb && sel(&a, p));   // tails
            kani::cover!(b[0].row_count == 0);                       // empty runs are skipped
            kani::cover!($na + $nb < 3 || rv.len() >= 3);
            std::mem::forget(r);
        }
    };
}
// @unit name=union_row_selections_1_1 props=C06 kind=bounded bound=1+1_runs_(lengths_unbounded) fns=union_row_selections timeout=600 tier=thorough confirmed=no_(not_seen_to_finish_under_load)
union_unit!(union_row_selections_1_1, 1, 1, 5);
// @unit name=union_row_selections_2_1 props=C06 kind=bounded bound=2+1_runs_(lengths_unbounded) fns=union_row_selections mem=4 timeout=900 tier=thorough confirmed=no_(not_seen_to_finish_under_load)
union_unit!(union_row_selections_2_1, 2, 1, 6);
// @unit name=union_row_selections_2_2 props=C06 kind=bounded bound=2+2_runs_(lengths_unbounded) fns=union_row_selections tier=thorough mem=8 timeout=1800 confirmed=no_(not_seen_to_finish_under_load)
union_unit!(union_row_selections_2_2, 2, 2, 7);

// Contract (C06): and_then_row_selections(a, b), where b selects among the rows SELECTED by a
// (precondition from RowSelection::and_then: total(b) = selected_total(a); runs of b non-empty, the RowSelection
// invariant): returns (no panic) r with total(r) = total(a) and for every position p:
//   sel(r, p) <=> sel(a, p) and sel(b, rank(a, p)).
macro_rules! and_then_unit {
    ($name:ident, $na:expr, $nb:expr, $unw:expr) => {
        #[kani::proof]
        #[kani::unwind($unw)]
        fn $name() {
            let a = any_runs::<$na>(false); let b = any_runs::<$nb>(true);
            kani::assume(total(&b) == selected_total(&a));
            let r = and_then_row_selections(&a, &b);
            let rv = runs_of(&r);
            assert!(total(rv) == total(&a));
            let p: usize = kani::any();
            assert!(sel(rv, p) == (sel(&a, p) && sel(&b, rank(&a, p))));
            kani::cover!(sel(rv, p));
            kani::cover!(sel(&a, p) && !sel(rv, p));
            kani::cover!($na == 1 || a[0].row_count == 0);                       // empty run of the first operand skipped
            kani::cover!($na == 1 || (a[$na - 1].skip && a[$na - 1].row_count > 0));   // trailing skip folded in
            kani::cover!($na + $nb < 4 || rv.len() >= 3);
            std::mem::forget(r);
        }
    };
}
// @unit name=and_then_row_selections_1_1 props=C06 kind=bounded bound=1+1_runs_(lengths_unbounded) fns=and_then_row_selections,and_then_iter timeout=600 tier=thorough confirmed=no_(not_seen_to_finish_under_load)
and_then_unit!(and_then_row_selections_1_1, 1, 1, 6);
// @unit name=and_then_row_selections_2_1 props=C06 kind=bounded bound=2+1_runs_(lengths_unbounded) fns=and_then_row_selections,and_then_iter mem=4 timeout=900 tier=thorough confirmed=no_(not_seen_to_finish_under_load)
and_then_unit!(and_then_row_selections_2_1, 2, 1, 7);
// @unit name=and_then_row_selections_2_2 props=C06 kind=bounded bound=2+2_runs_(lengths_unbounded) fns=and_then_row_selections,and_then_iter tier=thorough mem=8 timeout=1800 confirmed=no_(not_seen_to_finish_under_load)
and_then_unit!(and_then_row_selections_2_2, 2, 2, 8);
// @unit name=and_then_row_selections_3_2 props=C06 kind=bounded bound=3+2_runs_(lengths_unbounded) fns=and_then_row_selections,and_then_iter tier=thorough mem=8 timeout=1800 confirmed=no_(not_seen_to_finish_under_load)
and_then_unit!(and_then_row_selections_3_2, 3, 2, 9);

// Contract (C06): and_then_row_selections REJECTS (panics) a second selection whose length differs from the number
// of rows selected by the first: whenever it returns, total(b) = selected_total(a). (may-reject unit: the callee's
// own `expect`/`assert!` failures are the rejections.)
// @unit name=and_then_row_selections_rejects_2_2 props=C06 kind=bounded bound=2+2_runs_(lengths_unbounded) fns=and_then_row_selections,and_then_iter mayreject=1 mem=4 timeout=900 tier=thorough
#[kani::proof]
#[kani::unwind(8)]
#[kani::stub(alloc::fmt::format, stub_format)]
fn and_then_row_selections_rejects_2_2() {
    let a = any_runs::<2>(false); let b = any_runs::<2>(false);
    let r = and_then_row_selections(&a, &b);
    assert!(total(&b) == selected_total(&a));
    kani::cover!(total(&b) > 0);
    std::mem::forget(r);
}

// ---------------------------------------------------------------------------------------------
// mask (bitmap) forms -- shapes (bit offset, length) are concrete per harness (grid rule: they size allocations),
// bitmap contents are symbolic
// ---------------------------------------------------------------------------------------------

fn mask_of<const B: usize>(bytes: [u8; B], offset: usize, len: usize) -> BooleanBuffer {
    BooleanBuffer::new(Buffer::from(bytes.to_vec()), offset, len)
}
/// number of set bits of m strictly below position p
fn mask_rank(m: &BooleanBuffer, p: usize) -> usize { let mut r = 0; let mut i = 0; while i < p && i < m.len() { if m.value(i) { r += 1; } i += 1; } r }

// Contract (C06): intersect_masks(l, r) / union_masks(l, r): len(out) = max(len l, len r); for i < min(len):
// out[i] = l[i] AND r[i]  (union: OR); beyond the shorter operand the longer one passes through (same convention as the
// run-length forms). Bit offsets of both operands are non-zero and different.
macro_rules! masks_unit {
    ($name:ident, $ol:expr, $ll:expr, $or:expr, $lr:expr) => {
        #[kani::proof]
        #[kani::unwind(12)]
        fn $name() {
            let l = mask_of::<4>(kani::any(), $ol, $ll);
            let r = mask_of::<4>(kani::any(), $or, $lr);
            let and = intersect_masks(&l, &r);
            let or = union_masks(&l, &r);
            let (mn, mx) = if $ll < $lr { ($ll, $lr) } else { ($lr, $ll) };
            assert!(and.len() == mx && or.len() == mx);
            let i: usize = kani::any(); kani::assume(i < mx);
            if i < mn {
                assert!(and.value(i) == (l.value(i) && r.value(i)));
                assert!(or.value(i) == (l.value(i) || r.value(i)));
            } else {
                let longer = if $ll > $lr { l.value(i) } else { r.value(i) };
                assert!(and.value(i) == longer && or.value(i) == longer);
            }
            kani::cover!(i < mn && and.value(i)); kani::cover!(i < mn && !or.value(i));
            kani::cover!(mn == mx || (i >= mn && and.value(i)));
        }
    };
}
// @unit name=masks_and_or_3_12_5_12 props=C06 kind=bounded bound=grid_offsets_3,5_len_12,12 fns=intersect_masks,union_masks,combine_equal_length_masks timeout=600 mem=4
masks_unit!(masks_and_or_3_12_5_12, 3, 12, 5, 12);
// @unit name=masks_and_or_1_9_2_17 props=C06 kind=bounded bound=grid_offsets_1,2_len_9,17 fns=intersect_masks,union_masks,combine_unequal_length_masks timeout=600 mem=4 tier=thorough
masks_unit!(masks_and_or_1_9_2_17, 1, 9, 2, 17);
// @unit name=masks_and_or_9_20_0_7 props=C06 kind=bounded bound=grid_offsets_9,0_len_20,7 fns=intersect_masks,union_masks,combine_unequal_length_masks timeout=600 mem=4 tier=thorough
masks_unit!(masks_and_or_9_20_0_7, 9, 20, 0, 7);

// Contract (C06): and_then_masks(mask, other) where other has one bit per SET bit of mask (precondition
// len(other) = popcount(mask), otherwise it panics): len(out) = len(mask) and out[i] = mask[i] AND other[rank(mask, i)].
macro_rules! and_then_masks_unit {
    ($name:ident, $om:expr, $lm:expr, $oo:expr, $lo:expr) => {
        #[kani::proof]
        #[kani::unwind(12)]
        #[kani::stub(alloc::fmt::format, stub_format)]
        fn $name() {
            let m = mask_of::<2>(kani::any(), $om, $lm);
            let o = mask_of::<2>(kani::any(), $oo, $lo);
            kani::assume(mask_rank(&m, $lm) == $lo);
            let out = and_then_masks(&m, &o);
            assert!(out.len() == $lm);
            let i: usize = kani::any(); kani::assume(i < $lm);
            assert!(out.value(i) == (m.value(i) && o.value(mask_rank(&m, i))));
            kani::cover!(out.value(i)); kani::cover!(m.value(i) && !out.value(i));
            kani::cover!(mask_rank(&o, $lo) == 0);                // fast path: nothing selected
            kani::cover!(mask_rank(&o, $lo) == $lo);              // fast path: everything selected -> clone
            kani::cover!(mask_rank(&o, $lo) == 2);                // general path
        }
    };
}
// @unit name=and_then_masks_2_9_1_4 props=C06 kind=bounded bound=grid_mask_offset_2_len_9_other_offset_1_len_4 fns=and_then_masks tier=thorough timeout=1800 mem=8 confirmed=no_(not_seen_to_finish_under_load)
and_then_masks_unit!(and_then_masks_2_9_1_4, 2, 9, 1, 4);

// Contract (C06): the mixed forms of and_then. `first` selects rows, `second` selects among the selected rows
// (precondition: it has exactly one entry per selected row of `first`; empty runs excluded).
//   and_then_selectors_with_mask(first: runs, second: bitmap) = run-length r with total(r) = total(first) and
//       sel(r, p) <=> sel(first, p) and second[rank(first, p)];
//   and_then_mask_from_selectors(first: bitmap, second: runs) = bitmap out with len(out) = len(first) and
//       out[p] <=> first[p] and sel(second, rank(first, p)).
// Shapes: bitmap of 9 bits at bit offset 2 (concrete), 2 runs of symbolic lengths <= 9.
// @unit name=and_then_selectors_with_mask_2runs props=C06 kind=bounded bound=2_runs_each_<=9_rows_mask_offset_2_len_5 fns=and_then_selectors_with_mask,and_then_iter,MaskRunIter::next tier=thorough timeout=1800 mem=8 confirmed=no_(not_seen_to_finish_under_load)
#[kani::proof]
#[kani::unwind(12)]
#[kani::stub(alloc::fmt::format, stub_format)]
fn and_then_selectors_with_mask_2runs() {
    let (c0, c1): (usize, usize) = (kani::any(), kani::any());
    kani::assume(c0 >= 1 && c0 <= 9 && c1 >= 1 && c1 <= 9);
    let first = [RowSelector { row_count: c0, skip: kani::any() }, RowSelector { row_count: c1, skip: kani::any() }];
    kani::assume(selected_total(&first) == 5);
    let second = mask_of::<1>(kani::any(), 2, 5);
    let r = and_then_selectors_with_mask(&first, &second);
    let rv = runs_of(&r);
    assert!(total(rv) == c0 + c1);
    let p: usize = kani::any(); kani::assume(p < c0 + c1);
    assert!(sel(rv, p) == (sel(&first, p) && second.value(rank(&first, p))));
    kani::cover!(sel(rv, p)); kani::cover!(sel(&first, p) && !sel(rv, p)); kani::cover!(first[0].skip != first[1].skip);
    std::mem::forget(r);
}

// @unit name=and_then_mask_from_selectors_2runs props=C06 kind=bounded bound=mask_offset_2_len_9_2_runs fns=and_then_mask_from_selectors tier=thorough timeout=1800 mem=8 confirmed=no_(not_seen_to_finish_under_load)
#[kani::proof]
#[kani::unwind(12)]
#[kani::stub(alloc::fmt::format, stub_format)]
fn and_then_mask_from_selectors_2runs() {
    let first = mask_of::<2>(kani::any(), 2, 9);
    let (c0, c1): (usize, usize) = (kani::any(), kani::any());
    kani::assume(c0 >= 1 && c0 <= 9 && c1 >= 1 && c1 <= 9);
    let second = [RowSelector { row_count: c0, skip: kani::any() }, RowSelector { row_count: c1, skip: kani::any() }];
    kani::assume(mask_rank(&first, 9) == c0 + c1);
    let out = and_then_mask_from_selectors(&first, second.iter().copied());
    assert!(out.len() == 9);
    let p: usize = kani::any(); kani::assume(p < 9);
    assert!(out.value(p) == (first.value(p) && sel(&second, mask_rank(&first, p))));
    kani::cover!(out.value(p)); kani::cover!(first.value(p) && !out.value(p)); kani::cover!(!first.value(8));
}
