// Kani contract harnesses for /repo/parquet/src/arrow/arrow_reader/selection/algebra.rs (child module: sees private items via super::)
