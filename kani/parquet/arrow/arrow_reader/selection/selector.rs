// Kani contract harnesses for /repo/parquet/src/arrow/arrow_reader/selection/selector.rs (child module: sees private items via super::)
//
// View (C06): a run-length selection denotes a set of row positions; `sel(v, p)` says whether position p is
// selected (false beyond the end), `total(v)` is the number of positions covered, `rank(v, p)` the number of
// selected positions strictly before p. Contracts are checked POINTWISE at a symbolic position p, so run LENGTHS are
// full-range usize (precondition: each run <= usize::MAX/16, so sums of <= 4 runs cannot overflow -- the callers'
// invariant is that totals are row counts of a row group); only the NUMBER of selectors is bounded, and it is
// concrete per harness (it sizes the Vec allocations).
use super::*;

const RUN_MAX: usize = usize::MAX >> 4;

fn total(v: &[RowSelector]) -> usize { let mut t = 0usize; for s in v { t += s.row_count; } t }
fn selected_total(v: &[RowSelector]) -> usize { let mut t = 0usize; for s in v { if !s.skip { t += s.row_count; } } t }
/// is position p selected
fn sel(v: &[RowSelector], p: usize) -> bool {
    let mut start = 0usize;
    for s in v { if p < start + s.row_count { return !s.skip; } start += s.row_count; }
    false
}
/// number of selected positions strictly below p
fn rank(v: &[RowSelector], p: usize) -> usize {
    let (mut start, mut r) = (0usize, 0usize);
    for s in v {
        if p <= start { break; }
        let covered = if p - start < s.row_count { p - start } else { s.row_count };
        if !s.skip { r += covered; }
        start += s.row_count;
    }
    r
}
fn any_selectors<const N: usize>() -> Vec<RowSelector> {
    let mut a = [RowSelector { row_count: 0, skip: false }; N];
    let mut i = 0;
    while i < N { let c: usize = kani::any(); kani::assume(c <= RUN_MAX); a[i] = RowSelector { row_count: c, skip: kani::any() }; i += 1; }
    a.to_vec()
}

// Contract (C06): split_off_selectors(v, n) = (head, tail) with
//   total(head) = min(n, total(v)), total(head) + total(tail) = total(v), and for every position p:
//   p < total(head): sel(head, p) = sel(v, p);   otherwise sel(tail, p - total(head)) = sel(v, p).
// i.e. positions(head) = positions(v) ∩ [0, n) and positions(tail) = positions(v) shifted down by n.
macro_rules! split_off_unit {
    ($name:ident, $n:expr) => {
        #[kani::proof]
        #[kani::unwind(6)]
        fn $name() {
            let v = any_selectors::<$n>();
            let n: usize = kani::any();
            let orig = v.clone();
            let (head, tail) = split_off_selectors(v, n);
            let th = total(&head);
            assert!(th == if n < total(&orig) { n } else { total(&orig) });
            assert!(th + total(&tail) == total(&orig));
            let p: usize = kani::any();
            if p < th { assert!(sel(&head, p) == sel(&orig, p)); }
            else { assert!(sel(&tail, p - th) == sel(&orig, p)); }
            kani::cover!(head.len() == $n && tail.len() == 1);            // a run was split in two
            kani::cover!(tail.is_empty());
            kani::cover!(head.is_empty());
        }
    };
}
// @unit name=split_off_selectors_n1 props=C06 kind=bounded bound=exactly_1_selector_(run_lengths_unbounded) fns=split_off_selectors timeout=600
split_off_unit!(split_off_selectors_n1, 1);
// @unit name=split_off_selectors_n2 props=C06 kind=bounded bound=exactly_2_selectors_(run_lengths_unbounded) fns=split_off_selectors mem=4 timeout=900
split_off_unit!(split_off_selectors_n2, 2);
// @unit name=split_off_selectors_n3 props=C06 kind=bounded bound=exactly_3_selectors_(run_lengths_unbounded) fns=split_off_selectors tier=thorough mem=8 timeout=1800 confirmed=no_(not_seen_to_finish_under_load)
split_off_unit!(split_off_selectors_n3, 3);

// Contract (C06): limit_selectors(v, k) keeps exactly the first k selected positions:
//   for every p: sel(out, p) <=> sel(v, p) and rank(v, p) < k;  total(out) <= total(v);
//   selected_total(out) = min(k, selected_total(v)).
macro_rules! limit_unit {
    ($name:ident, $n:expr) => {
        #[kani::proof]
        #[kani::unwind(6)]
        fn $name() {
            let v = any_selectors::<$n>();
            let k: usize = kani::any();
            let orig = v.clone();
            let out = limit_selectors(v, k);
            let sv = selected_total(&orig);
            assert!(selected_total(&out) == if k < sv { k } else { sv });
            assert!(total(&out) <= total(&orig));
            let p: usize = kani::any();
            assert!(sel(&out, p) == (sel(&orig, p) && rank(&orig, p) < k));
            kani::cover!($n == 1 || (out.len() < $n && k > 0));
            kani::cover!(out.len() == $n && k < sv);          // last run shortened
            kani::cover!(k >= sv && sv > 0);
            kani::cover!(k == 0);
        }
    };
}
// @unit name=limit_selectors_n1 props=C06 kind=bounded bound=exactly_1_selector fns=limit_selectors timeout=600 tier=thorough
limit_unit!(limit_selectors_n1, 1);
// @unit name=limit_selectors_n2 props=C06 kind=bounded bound=exactly_2_selectors fns=limit_selectors timeout=600
limit_unit!(limit_selectors_n2, 2);
// @unit name=limit_selectors_n3 props=C06 kind=bounded bound=exactly_3_selectors fns=limit_selectors mem=4 timeout=900
limit_unit!(limit_selectors_n3, 3);

// Contract (C06): offset_selectors(v, k) clears exactly the first k selected positions:
//   for every p: sel(out, p) <=> sel(v, p) and rank(v, p) >= k;
//   total(out) = total(v) when some selected position survives (k < selected_total(v)), otherwise out is empty.
macro_rules! offset_unit {
    ($name:ident, $n:expr) => {
        #[kani::proof]
        #[kani::unwind(6)]
        fn $name() {
            let v = any_selectors::<$n>();
            let k: usize = kani::any();
            let orig = v.clone();
            let out = offset_selectors(v, k);
            let sv = selected_total(&orig);
            if k < sv { assert!(total(&out) == total(&orig)); assert!(selected_total(&out) == sv - k); }
            else { assert!(out.is_empty()); }
            let p: usize = kani::any();
            assert!(sel(&out, p) == (sel(&orig, p) && rank(&orig, p) >= k));
            kani::cover!(k < sv && k > 0);
            kani::cover!(k >= sv);
            kani::cover!(out.len() == $n + 1);
        }
    };
}
// @unit name=offset_selectors_n1 props=C06 kind=bounded bound=exactly_1_selector fns=offset_selectors timeout=600 tier=thorough confirmed=no_(not_seen_to_finish_under_load)
offset_unit!(offset_selectors_n1, 1);
// @unit name=offset_selectors_n2 props=C06 kind=bounded bound=exactly_2_selectors fns=offset_selectors mem=6 timeout=900 tier=thorough confirmed=no_(not_seen_to_finish_under_load)
offset_unit!(offset_selectors_n2, 2);
// @unit name=offset_selectors_n3 props=C06 kind=bounded bound=exactly_3_selectors fns=offset_selectors tier=thorough mem=8 timeout=1800 confirmed=no_(not_seen_to_finish_under_load)
offset_unit!(offset_selectors_n3, 3);
