// Kani contract harnesses for /repo/parquet/src/arrow/arrow_reader/selection/ranges.rs (child module: sees private items via super::)
use super::*;

const RUN_MAX: usize = usize::MAX >> 4;

fn any_runs<const N: usize>() -> [RowSelector; N] {
    let mut a = [RowSelector { row_count: 0, skip: false }; N];
    let mut i = 0;
    while i < N {
        let c: usize = kani::any(); kani::assume(c >= 1 && c <= RUN_MAX);       // RowSelection invariant: no empty runs
        a[i] = RowSelector { row_count: c, skip: kani::any() }; i += 1;
    }
    a
}
/// does the selection select some row position in [lo, hi)   (hi = None: to the end)
fn selects_in(v: &[RowSelector], lo: usize, hi: Option<usize>) -> bool {
    let mut start = 0usize;
    for s in v {
        let end = start + s.row_count;
        let below_hi = match hi { Some(h) => start < h, None => true };
        if !s.skip && end > lo && below_hi { return true; }
        start = end;
    }
    false
}

// Contract (C06): scan_ranges_from_selectors(selectors, pages) for an offset index whose pages start at strictly
// increasing row indexes, the first at row 0 (the writer's invariant: pages delimit the rows of the row group), and a
// run-length selection without empty runs: the result is, in page order and without duplicates, exactly the byte
// ranges offset .. offset + compressed_page_size of those pages whose row range [first_row_i, first_row_(i+1)) (last
// page: unbounded) contains at least one selected row position -- a page is fetched IFF it has a selected row.
macro_rules! scan_ranges_unit {
    ($name:ident, $pages:expr, $runs:expr, $unw:expr) => {
        #[kani::proof]
        #[kani::unwind($unw)]
        fn $name() {
            let sel = any_runs::<$runs>();
            let mut pages: [PageLocation; $pages] = std::array::from_fn(|_| PageLocation { offset: 0, compressed_page_size: 0, first_row_index: 0 });
            let mut i = 0;
            while i < $pages {
                let off: i64 = kani::any(); let sz: i32 = kani::any(); let fr: i64 = kani::any();
                kani::assume(off >= 0 && off <= i64::MAX >> 1 && sz >= 0);
                kani::assume(if i == 0 { fr == 0 } else { fr > pages[i - 1].first_row_index && fr <= (RUN_MAX as i64) });
                pages[i] = PageLocation { offset: off, compressed_page_size: sz, first_row_index: fr };
                i += 1;
            }
            let out = scan_ranges_from_selectors(sel.iter().copied(), &pages);
            // expected: filter pages by "has a selected row"
            let mut k = 0usize; let mut i = 0;
            while i < $pages {
                let lo = pages[i].first_row_index as usize;
                let hi = if i + 1 < $pages { Some(pages[i + 1].first_row_index as usize) } else { None };
                if selects_in(&sel, lo, hi) {
                    assert!(k < out.len());
                    assert!(out[k].start == pages[i].offset as u64);
                    assert!(out[k].end == pages[i].offset as u64 + pages[i].compressed_page_size as u64);
                    k += 1;
                }
                i += 1;
            }
            assert!(out.len() == k);
            kani::cover!(k == $pages);
            kani::cover!(k == 0);
            kani::cover!(k == 1 && $pages > 1 && out[0].start == pages[$pages - 1].offset as u64 && pages[0].offset != pages[$pages - 1].offset);
        }
    };
}
// @unit name=scan_ranges_2pages_2runs props=C06 kind=bounded bound=2_pages_2_runs_(lengths_unbounded) fns=scan_ranges_from_selectors timeout=600 mem=4 tier=thorough confirmed=no_(not_seen_to_finish_under_load)
scan_ranges_unit!(scan_ranges_2pages_2runs, 2, 2, 7);
// @unit name=scan_ranges_3pages_2runs props=C06 kind=bounded bound=3_pages_2_runs_(lengths_unbounded) fns=scan_ranges_from_selectors timeout=900 mem=4 tier=thorough confirmed=no_(not_seen_to_finish_under_load)
scan_ranges_unit!(scan_ranges_3pages_2runs, 3, 2, 8);
// @unit name=scan_ranges_3pages_3runs props=C06 kind=bounded bound=3_pages_3_runs_(lengths_unbounded) fns=scan_ranges_from_selectors tier=thorough timeout=1800 mem=8 confirmed=no_(not_seen_to_finish_under_load)
scan_ranges_unit!(scan_ranges_3pages_3runs, 3, 3, 9);
// @unit name=scan_ranges_1page_3runs props=C06 kind=bounded bound=1_page_3_runs_(lengths_unbounded) fns=scan_ranges_from_selectors timeout=600 mem=4 tier=thorough confirmed=no_(not_seen_to_finish_under_load)
scan_ranges_unit!(scan_ranges_1page_3runs, 1, 3, 7);
