// Kani contract harnesses for /repo/parquet/src/arrow/arrow_reader/selection/mod.rs (child module: sees private items via super::)
//
// View (C06): `sel(v, p)`: is row position p selected (false beyond the end); `total(v)`; checked pointwise at a symbolic
// position with unbounded run lengths (each <= usize::MAX/16); the number of runs / ranges is concrete per harness.
use super::*;

const RUN_MAX: usize = usize::MAX >> 4;

fn total(v: &[RowSelector]) -> usize { let mut t = 0usize; for s in v { t += s.row_count; } t }
fn selected_total(v: &[RowSelector]) -> usize { let mut t = 0usize; for s in v { if !s.skip { t += s.row_count; } } t }
fn sel(v: &[RowSelector], p: usize) -> bool {
    let mut start = 0usize;
    for s in v { if p < start + s.row_count { return !s.skip; } start += s.row_count; }
    false
}
fn any_runs<const N: usize>(nonzero: bool) -> [RowSelector; N] {
    let mut a = [RowSelector { row_count: 0, skip: false }; N];
    let mut i = 0;
    while i < N {
        let c: usize = kani::any(); kani::assume(c <= RUN_MAX && (!nonzero || c > 0));
        a[i] = RowSelector { row_count: c, skip: kani::any() }; i += 1;
    }
    a
}
fn runs_of(r: &RowSelection) -> &[RowSelector] {
    match &r.inner { RowSelectionInner::Selectors(s) => s.as_slice(), RowSelectionInner::Mask(_) => panic!("expected runs") }
}
fn canonical(v: &[RowSelector]) -> bool {
    let mut i = 0;
    while i < v.len() { if v[i].row_count == 0 || (i > 0 && v[i - 1].skip == v[i].skip) { return false; } i += 1; }
    true
}

// Contract (C06): RowSelection::from(Vec<RowSelector>) (= FromIterator) normalises without changing the denoted set:
// same total, sel(r, p) = sel(v, p) for every p, and the stored runs are canonical (no empty run, adjacent runs
// alternate between skip and select).
macro_rules! from_vec_unit {
    ($name:ident, $n:expr, $unw:expr) => {
        #[kani::proof]
        #[kani::unwind($unw)]
        fn $name() {
            let v = any_runs::<$n>(false);
            let r = RowSelection::from(v.to_vec());
            let rv = runs_of(&r);
            assert!(total(rv) == total(&v) && canonical(rv));
            let p: usize = kani::any();
            assert!(sel(rv, p) == sel(&v, p));
            kani::cover!(rv.len() == $n); kani::cover!(rv.len() == 1 && $n > 1); kani::cover!(rv.is_empty());
            std::mem::forget(r);
        }
    };
}
// @unit name=from_vec_n2 props=C06 kind=bounded bound=2_runs_(lengths_unbounded) fns=RowSelection::from_iter,RowSelection::from timeout=600 tier=thorough confirmed=no_(not_seen_to_finish_under_load)
from_vec_unit!(from_vec_n2, 2, 6);
// @unit name=from_vec_n3 props=C06 kind=bounded bound=3_runs_(lengths_unbounded) fns=RowSelection::from_iter,RowSelection::from timeout=900 mem=4 tier=thorough confirmed=no_(not_seen_to_finish_under_load)
from_vec_unit!(from_vec_n3, 3, 7);

// Contract (C06): RowSelection::from_consecutive_ranges(ranges, total_rows) for ranges that are ordered and
// non-overlapping (start_i >= end_(i-1), start_i <= end_i; otherwise it panics "out of order") with the last end <=
// total_rows: total(r) = total_rows and sel(r, p) <=> p lies in one of the ranges.
macro_rules! from_ranges_unit {
    ($name:ident, $n:expr, $unw:expr) => {
        #[kani::proof]
        #[kani::unwind($unw)]
        fn $name() {
            let mut rs: [std::ops::Range<usize>; $n] = std::array::from_fn(|_| 0..0);
            let mut prev = 0usize; let mut i = 0;
            while i < $n {
                let (s, e): (usize, usize) = (kani::any(), kani::any());
                kani::assume(s >= prev && e >= s && e <= RUN_MAX);
                rs[i] = s..e; prev = e; i += 1;
            }
            let total_rows: usize = kani::any(); kani::assume(total_rows >= prev && total_rows <= RUN_MAX);
            let spec = rs.clone();
            let r = RowSelection::from_consecutive_ranges(rs.into_iter(), total_rows);
            let rv = runs_of(&r);
            assert!(total(rv) == total_rows);
            let p: usize = kani::any();
            let mut inside = false; let mut i = 0;
            while i < $n { if p >= spec[i].start && p < spec[i].end { inside = true; } i += 1; }
            assert!(sel(rv, p) == inside);
            kani::cover!(inside); kani::cover!(!inside && p < total_rows);
            kani::cover!(rv.len() == 2 * $n + 1);
            kani::cover!(rv.len() == 1 && $n > 1 && !rv[0].skip);       // adjacent ranges merged
            kani::cover!(spec[0].start == 0 && spec[0].end > 0);         // first range starts at row 0 (no leading skip)
            kani::cover!(spec[0].start == spec[0].end && inside);        // an empty range is ignored
            kani::cover!(total_rows == prev && prev > 0);                // no trailing skip
            std::mem::forget(r);
        }
    };
}
// @unit name=from_consecutive_ranges_n2 props=C06 kind=bounded bound=2_ranges_(bounds_unbounded) fns=RowSelection::from_consecutive_ranges timeout=600 tier=thorough confirmed=no_(not_seen_to_finish_under_load)
from_ranges_unit!(from_consecutive_ranges_n2, 2, 6);
// @unit name=from_consecutive_ranges_n3 props=C06 kind=bounded bound=3_ranges_(bounds_unbounded) fns=RowSelection::from_consecutive_ranges timeout=900 mem=4 tier=thorough confirmed=no_(not_seen_to_finish_under_load)
from_ranges_unit!(from_consecutive_ranges_n3, 3, 7);

// Contract (C06): on a run-length RowSelection with N runs (no empty runs -- the invariant kept by every constructor):
//   row_count = number of selected positions, skipped_row_count = number of skipped positions, total_row_count = their
//   sum; selects_any <=> row_count > 0; iter yields exactly the stored runs in order;
//   trim() drops trailing skipped rows only: sel unchanged at every position, selected count unchanged, and the
//   trimmed selection is empty or ends with a selected run.
macro_rules! counts_unit {
    ($name:ident, $n:expr, $unw:expr) => {
        #[kani::proof]
        #[kani::unwind($unw)]
        fn $name() {
            let v = any_runs::<$n>(true);
            let r = RowSelection::from_selectors(v.to_vec());
            assert!(r.row_count() == selected_total(&v));
            assert!(r.skipped_row_count() == total(&v) - selected_total(&v));
            assert!(r.total_row_count() == total(&v));
            assert!(r.selects_any() == (selected_total(&v) > 0));
            {
                let mut it = r.iter(); let mut i = 0;
                while i < $n { assert!(it.next() == Some(&v[i])); i += 1; }
                assert!(it.next().is_none());
            }
            let t = r.clone().trim();
            let tv = runs_of(&t);
            let p: usize = kani::any();
            assert!(sel(tv, p) == sel(&v, p));
            assert!(selected_total(tv) == selected_total(&v) && total(tv) <= total(&v));
            assert!(tv.is_empty() || !tv[tv.len() - 1].skip);
            kani::cover!(tv.len() < $n && !tv.is_empty()); kani::cover!(tv.is_empty()); kani::cover!(tv.len() == $n);
            std::mem::forget(r); std::mem::forget(t);
        }
    };
}
// @unit name=counts_iter_trim_n2 props=C06 kind=bounded bound=2_runs_(lengths_unbounded) fns=RowSelection::row_count,RowSelection::skipped_row_count,RowSelection::total_row_count,RowSelection::selects_any,RowSelection::iter,RowSelection::trim timeout=600 tier=thorough
counts_unit!(counts_iter_trim_n2, 2, 6);
// @unit name=counts_iter_trim_n3 props=C06 kind=bounded bound=3_runs_(lengths_unbounded) fns=RowSelection::row_count,RowSelection::skipped_row_count,RowSelection::total_row_count,RowSelection::selects_any,RowSelection::iter,RowSelection::trim timeout=900 mem=4 tier=thorough
counts_unit!(counts_iter_trim_n3, 3, 7);
