// Kani contract harnesses for /repo/parquet/src/arrow/arrow_reader/selection/mod.rs (child module: sees private items via super::)
