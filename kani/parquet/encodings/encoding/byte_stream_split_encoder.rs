// Kani contract harnesses for /repo/parquet/src/encodings/encoding/byte_stream_split_encoder.rs (child module: sees private items via super::)
//
// BYTE_STREAM_SPLIT layout (parquet-format Encodings.md): for n values of T bytes, stream j (0 <= j < T) holds byte j of
// every value, streams are concatenated: encoded[i + j*n] = plain[i*T + j]. The decoder file carries the inverse
// contract with the same formula; the composition of the two is the round trip.
use super::*;

// Contract (C05): split_streams_const::<T>(src, dst) with len(src) = len(dst) = N*T: for all i < N, j < T:
// dst[i + j*N] = src[i*T + j]. (i, j) -> i + j*N is a bijection onto [0, N*T), so this fixes every byte of dst.
// split_streams_variable(src, dst, T) produces the identical output.
macro_rules! split_const_unit {
    ($name:ident, $t:expr, $n:expr, $unw:expr) => {
        #[kani::proof]
        #[kani::unwind($unw)]
        fn $name() {
            let src: [u8; $t * $n] = kani::any();
            let mut dst = [0u8; $t * $n];
            split_streams_const::<$t>(&src, &mut dst);
            let (i, j): (usize, usize) = (kani::any(), kani::any());
            kani::assume(i < $n && j < $t);
            assert!(dst[i + j * $n] == src[i * $t + j]);
            let mut dst2 = [0u8; $t * $n];
            split_streams_variable(&src, &mut dst2, $t);
            assert!(dst2[i + j * $n] == dst[i + j * $n]);          // (i, j) ranges over every byte
            kani::cover!(i == $n - 1 && j == $t - 1 && src[i * $t + j] == 0x5A);
        }
    };
}
// @unit name=split_streams_const4_n3 props=C05 kind=bounded bound=3_values_of_4_bytes fns=split_streams_const,split_streams_variable timeout=300
split_const_unit!(split_streams_const4_n3, 4, 3, 10);
// @unit name=split_streams_const8_n3 props=C05 kind=bounded bound=3_values_of_8_bytes fns=split_streams_const,split_streams_variable timeout=300
split_const_unit!(split_streams_const8_n3, 8, 3, 10);
// @unit name=split_streams_const4_n1 props=C05 kind=bounded bound=1_value_of_4_bytes fns=split_streams_const,split_streams_variable timeout=300 tier=thorough
split_const_unit!(split_streams_const4_n1, 4, 1, 10);
// @unit name=split_streams_const4_n8 props=C05 kind=bounded bound=8_values_of_4_bytes fns=split_streams_const,split_streams_variable tier=thorough timeout=900
split_const_unit!(split_streams_const4_n8, 4, 8, 10);
// @unit name=split_streams_const8_n8 props=C05 kind=bounded bound=8_values_of_8_bytes fns=split_streams_const,split_streams_variable tier=thorough timeout=900
split_const_unit!(split_streams_const8_n8, 8, 8, 10);

// Contract (C05): split_streams_variable(src, dst, W) for FIXED_LEN_BYTE_ARRAY widths W that are not a multiple of the
// internal block of 4 (partial last block) and for W = 16: dst[i + j*N] = src[i*W + j] for all i < N, j < W.
macro_rules! split_var_unit {
    ($name:ident, $w:expr, $n:expr, $unw:expr) => {
        #[kani::proof]
        #[kani::unwind($unw)]
        fn $name() {
            let src: [u8; $w * $n] = kani::any();
            let mut dst = [0u8; $w * $n];
            split_streams_variable(&src, &mut dst, $w);
            let (i, j): (usize, usize) = (kani::any(), kani::any());
            kani::assume(i < $n && j < $w);
            assert!(dst[i + j * $n] == src[i * $w + j]);
            kani::cover!(i == $n - 1 && j == $w - 1 && src[i * $w + j] == 0x5A);
        }
    };
}
// @unit name=split_streams_variable_w5_n3 props=C05 kind=bounded bound=3_values_of_5_bytes fns=split_streams_variable timeout=300
split_var_unit!(split_streams_variable_w5_n3, 5, 3, 8);
// @unit name=split_streams_variable_w2_n3 props=C05 kind=bounded bound=3_values_of_2_bytes fns=split_streams_variable timeout=300 tier=thorough
split_var_unit!(split_streams_variable_w2_n3, 2, 3, 8);
// @unit name=split_streams_variable_w16_n2 props=C05 kind=bounded bound=2_values_of_16_bytes fns=split_streams_variable timeout=300 tier=thorough
split_var_unit!(split_streams_variable_w16_n2, 16, 2, 8);
// @unit name=split_streams_variable_w7_n8 props=C05 kind=bounded bound=8_values_of_7_bytes fns=split_streams_variable tier=thorough timeout=900
split_var_unit!(split_streams_variable_w7_n8, 7, 8, 10);
