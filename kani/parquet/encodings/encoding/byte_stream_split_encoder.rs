// Kani contract harnesses for /repo/parquet/src/encodings/encoding/byte_stream_split_encoder.rs (child module: sees private items via super::)
