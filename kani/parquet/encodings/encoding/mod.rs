// Kani contract harnesses for /repo/parquet/src/encodings/encoding/mod.rs (child module: sees private items via super::)
