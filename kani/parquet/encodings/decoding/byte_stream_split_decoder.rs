// Kani contract harnesses for /repo/parquet/src/encodings/decoding/byte_stream_split_decoder.rs (child module: sees private items via super::)
