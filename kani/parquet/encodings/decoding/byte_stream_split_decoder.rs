// Kani contract harnesses for /repo/parquet/src/encodings/decoding/byte_stream_split_decoder.rs (child module: sees private items via super::)
//
// Inverse of the layout contract in encoding/byte_stream_split_encoder.rs: encoded[i + j*n] = plain[i*T + j].
use super::*;

// Contract (C05): join_streams_const::<T>(src, dst, stride, values_decoded) with len(src) = stride*T, dst a window of K
// values (len(dst) = K*T) starting at value index `values_decoded` (values_decoded + K <= stride, the reader's
// invariant): for all i < K, j < T: dst[i*T + j] = src[(values_decoded + i) + j*stride]; every byte of dst is written.
// join_streams_variable with type_size = T writes the same bytes. Decoding is thereby the inverse of split_streams:
// with src = split(plain) one gets dst[i*T + j] = plain[(values_decoded + i)*T + j].
macro_rules! join_const_unit {
    ($name:ident, $t:expr, $n:expr, $unw:expr) => {
        #[kani::proof]
        #[kani::unwind($unw)]
        fn $name() {
            let src: [u8; $t * $n] = kani::any();
            let vd: usize = kani::any(); let k: usize = kani::any();
            kani::assume(vd <= $n && k <= $n - vd);
            let mut out = [0u8; $t * $n];
            join_streams_const::<$t>(&src, &mut out[..k * $t], $n, vd);
            let (i, j): (usize, usize) = (kani::any(), kani::any());
            kani::assume(i < k && j < $t);
            assert!(out[i * $t + j] == src[vd + i + j * $n]);
            let mut out2 = [0u8; $t * $n];
            join_streams_variable(&src, &mut out2[..k * $t], $n, $t, vd);
            assert!(out2[i * $t + j] == out[i * $t + j]);          // (i, j) ranges over every written byte
            let z: usize = kani::any();
            if z >= k * $t && z < $t * $n { assert!(out[z] == 0 && out2[z] == 0); }                     // frame: nothing beyond the window
            kani::cover!(vd == 1 && k == $n - 1 && i == k - 1 && j == $t - 1);
            kani::cover!(vd == 0 && k == $n);
        }
    };
}
// @unit name=join_streams_const4_n3 props=C05 kind=bounded bound=3_values_of_4_bytes_any_window fns=join_streams_const,join_streams_variable timeout=300
join_const_unit!(join_streams_const4_n3, 4, 3, 10);
// @unit name=join_streams_const8_n3 props=C05 kind=bounded bound=3_values_of_8_bytes_any_window fns=join_streams_const,join_streams_variable timeout=300
join_const_unit!(join_streams_const8_n3, 8, 3, 10);
// @unit name=join_streams_const4_n8 props=C05 kind=bounded bound=8_values_of_4_bytes_any_window fns=join_streams_const,join_streams_variable tier=thorough timeout=900
join_const_unit!(join_streams_const4_n8, 4, 8, 10);
// @unit name=join_streams_const8_n8 props=C05 kind=bounded bound=8_values_of_8_bytes_any_window fns=join_streams_const,join_streams_variable tier=thorough timeout=900
join_const_unit!(join_streams_const8_n8, 8, 8, 10);

// Contract (C05): join_streams_variable for widths 5 and 16 (FIXED_LEN_BYTE_ARRAY): same formula.
macro_rules! join_var_unit {
    ($name:ident, $w:expr, $n:expr, $unw:expr) => {
        #[kani::proof]
        #[kani::unwind($unw)]
        fn $name() {
            let src: [u8; $w * $n] = kani::any();
            let vd: usize = kani::any(); let k: usize = kani::any();
            kani::assume(vd <= $n && k <= $n - vd);
            let mut out = [0u8; $w * $n];
            join_streams_variable(&src, &mut out[..k * $w], $n, $w, vd);
            let (i, j): (usize, usize) = (kani::any(), kani::any());
            kani::assume(i < k && j < $w);
            assert!(out[i * $w + j] == src[vd + i + j * $n]);
            kani::cover!(vd == 1 && k == $n - 1 && i == k - 1 && j == $w - 1);
        }
    };
}
// @unit name=join_streams_variable_w5_n3 props=C05 kind=bounded bound=3_values_of_5_bytes_any_window fns=join_streams_variable timeout=300
join_var_unit!(join_streams_variable_w5_n3, 5, 3, 8);
// @unit name=join_streams_variable_w16_n2 props=C05 kind=bounded bound=2_values_of_16_bytes_any_window fns=join_streams_variable timeout=300 tier=thorough
join_var_unit!(join_streams_variable_w16_n2, 16, 2, 18);
