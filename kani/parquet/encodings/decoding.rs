// Kani contract harnesses for /repo/parquet/src/encodings/decoding.rs (child module: sees private items via super::)
use super::*;
#[path = "/verif/kani/support/spec.rs"]
mod spec;
#[allow(unused_imports)]
use spec::*;
use crate::data_type::{DoubleType, FloatType, Int32Type, Int64Type, Int96, Int96Type};
use crate::encodings::encoding::{Encoder, PlainEncoder};

// Contract (C05): PLAIN write then read returns the same values bit-exactly (NaN payloads, -0.0, extremes) and the
// wire format is the one of the Parquet format document: values back to back, little-endian, W bytes each:
//   enc = PlainEncoder::new(); enc.put(v[0..3]); bytes = enc.flush_buffer()  =>  len(bytes) = 3 W and
//   bytes[W i .. W (i+1)] = le_bytes(v[i]);
//   dec = PlainDecoder::new(); dec.set_data(bytes, 3); dec.get(out[0..3]) = 3 (the *_two_reads variant: get(out[0..2]) = 2 then
//   get(out[2..3]) = 1 -- the decoder keeps its position); out = v bit for bit; values_left() = 0.
// Encoder, decoder and their `bytes::Bytes` are forgotten (forget rule).
macro_rules! plain_roundtrip_unit {
    ($name:ident, $dt:ty, $native:ty, $w:expr, $two_reads:expr) => {
        #[kani::proof]
        #[kani::unwind(8)]
        #[kani::stub(alloc::fmt::format, stub_format)]
        fn $name() {
            let raw: [[u8; $w]; 3] = kani::any();
            let vals: [$native; 3] = [<$native>::from_le_bytes(raw[0]), <$native>::from_le_bytes(raw[1]), <$native>::from_le_bytes(raw[2])];
            let mut enc = PlainEncoder::<$dt>::new();
            let put = enc.put(&vals);
            assert!(put.is_ok());
            std::mem::forget(put);
            let bytes = match enc.flush_buffer() { Ok(b) => b, Err(e) => { std::mem::forget(e); panic!("flush failed") } };
            assert!(bytes.len() == 3 * $w);
            let (i, j): (usize, usize) = (kani::any(), kani::any());
            kani::assume(i < 3 && j < $w);
            assert!(bytes[i * $w + j] == raw[i][j]);
            let mut dec = PlainDecoder::<$dt>::new(0);
            let sd = dec.set_data(bytes, 3);
            assert!(sd.is_ok()); std::mem::forget(sd);
            assert!(dec.values_left() == 3);
            let mut out: [$native; 3] = [<$native>::from_le_bytes([0; $w]); 3];
            if $two_reads {
                // two reads: the decoder keeps its position
                let n1 = match dec.get(&mut out[..2]) { Ok(n) => n, Err(e) => { std::mem::forget(e); usize::MAX } };
                let n2 = match dec.get(&mut out[2..]) { Ok(n) => n, Err(e) => { std::mem::forget(e); usize::MAX } };
                assert!(n1 == 2 && n2 == 1);
            } else {
                let n = match dec.get(&mut out) { Ok(n) => n, Err(e) => { std::mem::forget(e); usize::MAX } };
                assert!(n == 3);
            }
            assert!(dec.values_left() == 0);
            assert!(out[i].to_le_bytes() == raw[i]);
            kani::cover!(i == 2 && raw[2][$w - 1] == 0xFF && raw[2][0] == 0x01);
            std::mem::forget(enc); std::mem::forget(dec);
        }
    };
}
// (each `get` slices and drops a temporary `bytes::Bytes` inside the decoder -- the promotable-vtable clone/drop is what makes
//  CBMC heavy: the three-read version of this unit ended in CBMC out-of-memory twice under load)
// @unit name=plain_roundtrip_i32 props=C05 kind=bounded bound=3_values_one_read fns=PlainEncoder::put,PlainEncoder::flush_buffer,PlainDecoder::set_data,PlainDecoder::get tier=thorough timeout=1800 mem=8 confirmed=no_(not_seen_to_finish_under_load)
plain_roundtrip_unit!(plain_roundtrip_i32, Int32Type, i32, 4, false);
// @unit name=plain_roundtrip_i64 props=C05 kind=bounded bound=3_values_one_read fns=PlainEncoder::put,PlainEncoder::flush_buffer,PlainDecoder::set_data,PlainDecoder::get tier=thorough timeout=1800 mem=8 confirmed=no_(not_seen_to_finish_under_load)
plain_roundtrip_unit!(plain_roundtrip_i64, Int64Type, i64, 8, false);
// @unit name=plain_roundtrip_f32 props=C05 kind=bounded bound=3_values_one_read fns=PlainEncoder::put,PlainEncoder::flush_buffer,PlainDecoder::set_data,PlainDecoder::get tier=thorough timeout=1800 mem=8 confirmed=no_(not_seen_to_finish_under_load)
plain_roundtrip_unit!(plain_roundtrip_f32, FloatType, f32, 4, false);
// @unit name=plain_roundtrip_f64 props=C05 kind=bounded bound=3_values_one_read fns=PlainEncoder::put,PlainEncoder::flush_buffer,PlainDecoder::set_data,PlainDecoder::get tier=thorough timeout=1800 mem=8 confirmed=no_(not_seen_to_finish_under_load)
plain_roundtrip_unit!(plain_roundtrip_f64, DoubleType, f64, 8, false);
// @unit name=plain_roundtrip_i32_two_reads props=C05 kind=bounded bound=3_values_read_as_2+1 fns=PlainEncoder::put,PlainEncoder::flush_buffer,PlainDecoder::set_data,PlainDecoder::get tier=thorough timeout=1800 mem=12 confirmed=no_(not_seen_to_finish_under_load)
plain_roundtrip_unit!(plain_roundtrip_i32_two_reads, Int32Type, i32, 4, true);

// Contract (C05): PLAIN round trip for INT96 (12 bytes per value: three little-endian u32 words), 2 values.
// @unit name=plain_roundtrip_int96 props=C05 kind=bounded bound=2_values fns=PlainEncoder::put,PlainEncoder::flush_buffer,PlainDecoder::set_data,PlainDecoder::get timeout=900 mem=4
#[kani::proof]
#[kani::unwind(8)]
#[kani::stub(alloc::fmt::format, stub_format)]
fn plain_roundtrip_int96() {
    let w: [[u32; 3]; 2] = kani::any();
    let mut vals = [Int96::new(), Int96::new()];
    vals[0].set_data(w[0][0], w[0][1], w[0][2]); vals[1].set_data(w[1][0], w[1][1], w[1][2]);
    let mut enc = PlainEncoder::<Int96Type>::new();
    let put = enc.put(&vals); assert!(put.is_ok()); std::mem::forget(put);
    let bytes = match enc.flush_buffer() { Ok(b) => b, Err(e) => { std::mem::forget(e); panic!("flush failed") } };
    assert!(bytes.len() == 24);
    let (i, k): (usize, usize) = (kani::any(), kani::any());
    kani::assume(i < 2 && k < 3);
    let o = 12 * i + 4 * k;
    assert!(u32::from_le_bytes([bytes[o], bytes[o + 1], bytes[o + 2], bytes[o + 3]]) == w[i][k]);
    let mut dec = PlainDecoder::<Int96Type>::new(0);
    let sd = dec.set_data(bytes, 2); assert!(sd.is_ok()); std::mem::forget(sd);
    let mut out = [Int96::new(), Int96::new()];
    let n = match dec.get(&mut out) { Ok(n) => n, Err(e) => { std::mem::forget(e); usize::MAX } };
    assert!(n == 2 && dec.values_left() == 0);
    assert!(out[i].data()[k] == w[i][k]);
    kani::cover!(w[1][2] == 0x8000_0001);
    std::mem::forget(enc); std::mem::forget(dec);
}

// Contract (C08, C05): PlainDecoder on a truncated page reports an error instead of reading out of bounds:
// with 3 announced i32 values but only L < 12 bytes of data, get(out[0..3]) = Err and nothing is consumed.
// @unit name=plain_decode_truncated_i32 props=C08 kind=bounded bound=3_values_L<12_bytes fns=PlainDecoder::get timeout=900 mem=4 tier=thorough
#[kani::proof]
#[kani::unwind(8)]
#[kani::stub(alloc::fmt::format, stub_format)]
fn plain_decode_truncated_i32() {
    let data: [u8; 11] = kani::any();
    let bytes = bytes::Bytes::copy_from_slice(&data);
    let mut dec = PlainDecoder::<Int32Type>::new(0);
    let sd = dec.set_data(bytes, 3); std::mem::forget(sd);
    let mut out = [0i32; 3];
    let r = dec.get(&mut out);
    assert!(r.is_err());
    std::mem::forget(r);
    assert!(dec.values_left() == 3 && out[0] == 0 && out[1] == 0 && out[2] == 0);
    let r2 = dec.get(&mut out[..2]);
    match r2 { Ok(n) => { assert!(n == 2); assert!(out[1].to_le_bytes() == [data[4], data[5], data[6], data[7]]); kani::cover!(out[1] == -1); } Err(e) => { std::mem::forget(e); assert!(false); } }
    std::mem::forget(dec);
}
