// Kani contract harnesses for /repo/parquet/src/encodings/decoding.rs (child module: sees private items via super::)
