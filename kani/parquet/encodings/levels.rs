// Kani contract harnesses for /repo/parquet/src/encodings/levels.rs (child module: sees private items via super::)
