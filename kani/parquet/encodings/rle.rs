// Kani contract harnesses for /repo/parquet/src/encodings/rle.rs (child module: sees private items via super::)
use super::*;
#[path = "/verif/kani/support/spec.rs"]
mod spec;
#[allow(unused_imports)]
use spec::*;

// Contract (C05): RLE/bit-packed hybrid round trip at tiny shapes (the 4-value, width-2 shape measured a 7-minute
// timeout in the design probes): N values < 2^W put one by one, consume(), then RleDecoder::set_data + get_batch into a
// buffer of N slots returns N and the values written, in order. (The hybrid pads a bit-packed group to 8 values; the
// reader bounds the count by the number of levels/values of the page, here by the buffer length.)
// Encoder-side Vec and decoder (holds bytes::Bytes) are forgotten.
macro_rules! rle_roundtrip_unit {
    ($name:ident, $w:expr, $n:expr) => {
        #[kani::proof]
        #[kani::unwind(12)]
        #[kani::stub(alloc::fmt::format, stub_format)]
        fn $name() {
            let vals: [u8; $n] = kani::any();
            let mut k = 0; while k < $n { kani::assume((vals[k] as u32) < (1u32 << $w)); k += 1; }
            let mut enc = RleEncoder::new($w, 16);
            let mut k = 0; while k < $n { enc.put(vals[k] as u64); k += 1; }
            let bytes = enc.consume();
            assert!(bytes.len() >= 2 && bytes.len() <= 16);
            let mut dec = RleDecoder::new($w);
            let sd = dec.set_data(bytes.into());
            assert!(sd.is_ok()); std::mem::forget(sd);
            let mut out = [0u8; $n];
            let n = match dec.get_batch::<u8>(&mut out) { Ok(n) => n, Err(e) => { std::mem::forget(e); usize::MAX } };
            assert!(n == $n);
            let i: usize = kani::any(); kani::assume(i < $n);
            assert!(out[i] == vals[i]);
            kani::cover!(vals[0] != vals[$n - 1]);
            kani::cover!(vals[0] == vals[$n - 1]);
            std::mem::forget(dec);
        }
    };
}
// @unit name=rle_roundtrip_w1_n2 props=C05 kind=bounded bound=2_values_bit_width_1 fns=RleEncoder::put,RleEncoder::consume,RleDecoder::set_data,RleDecoder::get_batch tier=thorough mem=8 timeout=1800 confirmed=no_(not_seen_to_finish_under_load)
rle_roundtrip_unit!(rle_roundtrip_w1_n2, 1, 2);
// @unit name=rle_roundtrip_w2_n3 props=C05 kind=bounded bound=3_values_bit_width_2 fns=RleEncoder::put,RleEncoder::consume,RleDecoder::set_data,RleDecoder::get_batch tier=thorough mem=8 timeout=1800 confirmed=no_(not_seen_to_finish_under_load)
rle_roundtrip_unit!(rle_roundtrip_w2_n3, 2, 3);
