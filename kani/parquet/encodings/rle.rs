// Kani contract harnesses for /repo/parquet/src/encodings/rle.rs (child module: sees private items via super::)
