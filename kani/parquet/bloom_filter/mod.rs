// Kani contract harnesses for /repo/parquet/src/bloom_filter/mod.rs (child module: sees private items via super::)
//
// Division of labour: Block::mask / insert / check and Sbbf::hash_to_block_index / insert_hash / check_hash are proved
// in Verus on the verbatim text (verus/bloom_block.spec.toml). This file holds (a) the Kani discharge of the two literal
// rewrites used there (`self[i]` -> `self.0[i]`), (b) the fold count bound of fold_to_target_fpp, (c) sizing, (d) byte-level round trip.
use super::*;
#[path = "/verif/kani/support/spec.rs"]
mod spec;
#[allow(unused_imports)]
use spec::*;

// Contract (C07): Block's Index / IndexMut impls delegate to the inner array: for every block and every i < 8,
// `&blk[i]` IS `&blk.0[i]` (same address, same value) and `blk[i] = v` / `blk[i] |= v` writes exactly word i of blk.0
// (frame: the other seven words unchanged); BitOr / BitOrAssign for Block are word-wise OR; count_ones is the sum of the
// eight word popcounts. This discharges the `self[i]` -> `self.0[i]` rewrite of the Verus units Block::insert / Block::check.
// @unit name=block_index_delegates props=C07 kind=complete fns=Block::index,Block::index_mut,Block::bitor,Block::bitor_assign,Block::count_ones timeout=300
#[kani::proof]
#[kani::unwind(10)]
fn block_index_delegates() {
    let a: [u32; 8] = kani::any(); let b: [u32; 8] = kani::any();
    let i: usize = kani::any(); kani::assume(i < 8);
    let v: u32 = kani::any();
    let blk = Block(a);
    assert!(blk[i] == a[i]);
    assert!(std::ptr::eq(&blk[i], &blk.0[i]));
    // IndexMut: plain store and the compound `|=` used by Block::insert
    let mut m = Block(a);
    assert!(std::ptr::eq(&mut m[i] as *mut u32 as *const u32, &m.0[i] as *const u32));
    m[i] = v;
    let mut o = Block(a);
    o[i] |= v;
    let mut k = 0;
    while k < 8 {
        assert!(m.0[k] == if k == i { v } else { a[k] });
        assert!(o.0[k] == if k == i { a[k] | v } else { a[k] });
        k += 1;
    }
    // BitOr / BitOrAssign are word-wise
    let r = Block(a) | Block(b);
    let mut s = Block(a); s |= Block(b);
    let mut k = 0; let mut ones = 0u32;
    while k < 8 { assert!(r.0[k] == (a[k] | b[k]) && s.0[k] == (a[k] | b[k])); ones += a[k].count_ones(); k += 1; }
    assert!(Block(a).count_ones() == ones);
    kani::cover!(i == 7 && v != a[7]);
    kani::cover!(i == 0 && a[0] | v != a[0]);
}

// (Sbbf::fold_n monotonicity and BitOrAssign are proved unbounded in Verus; the bounded Kani units that used a memoising
// nondeterministic stub for Block::mask were removed -- they all passed for 2/4/8 blocks and 1..3 folds, 41-396 s under load.)

// Contract (C07): num_folds_for_target_fpp never asks for more folds than the filter can take: for a filter of
// LEN in {2,4,8} blocks with arbitrary contents and an arbitrary f64 target (NaN and infinities included) the result is
// <= log2(LEN), so fold_n's `group_size <= len` assertion cannot fire from fold_to_target_fpp. (Floating-point
// estimate itself is not specified here.)
macro_rules! num_folds_unit {
    ($name:ident, $len:expr, $log:expr) => {
        #[kani::proof]
        #[kani::unwind(10)]
        #[kani::stub(alloc::fmt::format, stub_format)]
        fn $name() {
            let words: [[u32; 8]; $len] = kani::any();
            let mut v = Vec::with_capacity($len);
            let mut i = 0; while i < $len { v.push(Block(words[i])); i += 1; }
            let f = Sbbf(v);
            let t: f64 = kani::any();
            let k = f.num_folds_for_target_fpp(t);
            assert!(k <= $log);
            kani::cover!(k == $log); kani::cover!(k == 0);
        }
    };
}
// @unit name=num_folds_bounded_4 props=C07 kind=bounded bound=4_blocks fns=Sbbf::num_folds_for_target_fpp timeout=600
num_folds_unit!(num_folds_bounded_4, 4, 2);
// @unit name=num_folds_bounded_8 props=C07 kind=bounded bound=8_blocks fns=Sbbf::num_folds_for_target_fpp timeout=900
num_folds_unit!(num_folds_bounded_8, 8, 3);

// Contract (C07): optimal_num_of_bytes(n), for every usize n, is the least power of two >= clamp(n, 32, 128 MiB):
// a power of two, within [BITSET_MIN_LENGTH, BITSET_MAX_LENGTH], >= the clamped request and < twice it; hence a
// multiple of the 32-byte block size (new_with_num_of_bytes' assert_eq cannot fire).
// @unit name=optimal_num_of_bytes_contract props=C07 kind=complete fns=optimal_num_of_bytes timeout=120
#[kani::proof]
fn optimal_num_of_bytes_contract() {
    let n: usize = kani::any();
    let r = optimal_num_of_bytes(n);
    let c = if n < BITSET_MIN_LENGTH { BITSET_MIN_LENGTH } else if n > BITSET_MAX_LENGTH { BITSET_MAX_LENGTH } else { n };
    assert!(r.count_ones() == 1);
    assert!(r >= BITSET_MIN_LENGTH && r <= BITSET_MAX_LENGTH);
    assert!(r >= c && r / 2 < c);
    assert!(r % 32 == 0);
    kani::cover!(n == 33 && r == 64); kani::cover!(n > BITSET_MAX_LENGTH); kani::cover!(n == 0 && r == 32);
}

// Contract (C07): Sbbf::new_with_num_of_bytes(n) is an all-zero filter of optimal_num_of_bytes(n)/32 blocks
// (a power of two >= 1), at concrete request sizes around the block boundaries.
macro_rules! new_bytes_unit {
    ($name:ident, $n:expr, $blocks:expr) => {
        #[kani::proof]
        #[kani::unwind(10)]
        #[kani::stub(alloc::fmt::format, stub_format)]
        fn $name() {
            let f = Sbbf::new_with_num_of_bytes($n);
            assert!(f.0.len() == $blocks && f.num_blocks() == $blocks);
            let (b, w): (usize, usize) = (kani::any(), kani::any());
            kani::assume(b < $blocks && w < 8);
            assert!(f.0[b].0[w] == 0);
            kani::cover!(b == $blocks - 1 && w == 7);
        }
    };
}
// @unit name=new_with_num_of_bytes_0 props=C07 kind=bounded bound=request_0_bytes fns=Sbbf::new_with_num_of_bytes timeout=300
new_bytes_unit!(new_with_num_of_bytes_0, 0, 1);
// @unit name=new_with_num_of_bytes_33 props=C07 kind=bounded bound=request_33_bytes fns=Sbbf::new_with_num_of_bytes timeout=300
new_bytes_unit!(new_with_num_of_bytes_33, 33, 2);
// @unit name=new_with_num_of_bytes_129 props=C07 kind=bounded bound=request_129_bytes fns=Sbbf::new_with_num_of_bytes timeout=300
new_bytes_unit!(new_with_num_of_bytes_129, 129, 8);

// Contract (C07/C05): the bitset byte layout round-trips: Sbbf::new(bytes) has len(bytes)/32 blocks whose word w of
// block b is the little-endian u32 at byte 32 b + 4 w, and write_bitset writes exactly those bytes back.
macro_rules! bitset_roundtrip_unit {
    ($name:ident, $blocks:expr, $bytes:expr) => {
        #[kani::proof]
        #[kani::unwind(34)]
        #[kani::stub(alloc::fmt::format, stub_format)]
        fn $name() {
            let bytes: [u8; $bytes] = kani::any();
            let f = Sbbf::new(&bytes);
            assert!(f.0.len() == $blocks);
            let (b, w): (usize, usize) = (kani::any(), kani::any());
            kani::assume(b < $blocks && w < 8);
            let o = 32 * b + 4 * w;
            assert!(f.0[b].0[w] == u32::from_le_bytes([bytes[o], bytes[o + 1], bytes[o + 2], bytes[o + 3]]));
            let mut out: Vec<u8> = Vec::with_capacity($bytes);
            let ok = f.write_bitset(&mut out).is_ok();
            assert!(ok && out.len() == $bytes);
            let i: usize = kani::any(); kani::assume(i < $bytes);
            assert!(out[i] == bytes[i]);
            kani::cover!(i == $bytes - 1 && bytes[i] == 0xA5);
        }
    };
}
// @unit name=bitset_roundtrip_1 props=C07 kind=bounded bound=1_block fns=Sbbf::new,Sbbf::write_bitset timeout=600
bitset_roundtrip_unit!(bitset_roundtrip_1, 1, 32);
// @unit name=bitset_roundtrip_2 props=C07 kind=bounded bound=2_blocks fns=Sbbf::new,Sbbf::write_bitset timeout=600
bitset_roundtrip_unit!(bitset_roundtrip_2, 2, 64);

// Contract (C07/C08): Sbbf::write then Sbbf::from_bytes returns the same blocks (header + bitset), and from_bytes
// rejects the same bytes with one trailing byte added or removed ("bitset consumes all remaining bytes").
// @unit name=write_from_bytes_roundtrip_1 props=C07 kind=bounded bound=1_block fns=Sbbf::write,Sbbf::from_bytes,Sbbf::header timeout=900 mem=4
#[kani::proof]
#[kani::unwind(34)]
#[kani::stub(alloc::fmt::format, stub_format)]
fn write_from_bytes_roundtrip_1() {
    let words: [u32; 8] = kani::any();
    let f = Sbbf(vec![Block(words)]);
    let mut out: Vec<u8> = Vec::with_capacity(64);
    assert!(f.write(&mut out).is_ok());
    let n = out.len();
    assert!(n > 32 && n <= 64);
    match Sbbf::from_bytes(&out) {
        Ok(g) => {
            assert!(g.0.len() == 1);
            let w: usize = kani::any(); kani::assume(w < 8);
            assert!(g.0[0].0[w] == words[w]);
            kani::cover!(words[7] == 0xDEADBEEF);
        }
        Err(e) => { std::mem::forget(e); assert!(false); }
    }
    match Sbbf::from_bytes(&out[..n - 1]) { Ok(_) => assert!(false), Err(e) => std::mem::forget(e) }
}
