// Kani contract harnesses for /repo/parquet/src/bloom_filter/mod.rs (child module: sees private items via super::)
