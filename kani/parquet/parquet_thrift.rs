// Kani contract harnesses for /repo/parquet/src/parquet_thrift.rs (child module: sees private items via super::)
