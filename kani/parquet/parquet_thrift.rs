// Kani contract harnesses for /repo/parquet/src/parquet_thrift.rs (child module: sees private items via super::)
use super::*;
#[path = "/verif/kani/support/spec.rs"]
mod spec;
use spec::*;

// ---------------------------------------------------------------------------------------------
// C08: ThriftSliceInputProtocol on ARBITRARY input. Model: the protocol object is a cursor into the
// input slice; `consumed(p)` = how far it moved. Every unit proves (i) no panic / no out-of-bounds /
// no arithmetic overflow on any input (checked by Kani on every path), (ii) the remaining slice is
// always a suffix of the input (pointer and length), (iii) the functional result stated below.
// Input: fixed array of N bytes, symbolic length n <= N (nothing allocates).
// ---------------------------------------------------------------------------------------------

fn any_input<const N: usize>() -> ([u8; N], usize) {
    let a: [u8; N] = kani::any();
    let n: usize = kani::any();
    kani::assume(n <= N);
    (a, n)
}

/// A protocol result turned into plain data: the Ok value, or the error variant as a code (+ its u8 payload).
/// The original `Result` is consumed WITHOUT running the drop glue of ThriftProtocolError (its IO variant holds a
/// std::io::Error = Box<dyn Error>, whose drop glue alone made every harness of this file time out: forget rule).
struct R<T> {
    v: Option<T>,
    code: u8,
    pay: u8,
}
const EOF: u8 = 1;
const INVALID_FIELD_TYPE: u8 = 3;
const INVALID_ELEMENT_TYPE: u8 = 4;
const FIELD_DELTA_OVERFLOW: u8 = 5;
const INVALID_BOOLEAN: u8 = 6;
const INTEGER_OVERFLOW: u8 = 7;
const SKIP_UNSUPPORTED: u8 = 10;
impl<T> R<T> {
    fn is_ok(&self) -> bool {
        self.v.is_some()
    }
    fn is_err(&self) -> bool {
        self.v.is_none()
    }
}
fn take<T>(r: ThriftProtocolResult<T>) -> R<T> {
    match r {
        Ok(v) => R { v: Some(v), code: 0, pay: 0 },
        Err(e) => {
            let (code, pay) = match &e {
                ThriftProtocolError::Eof => (EOF, 0),
                ThriftProtocolError::IO(_) => (2, 0),
                ThriftProtocolError::InvalidFieldType(x) => (INVALID_FIELD_TYPE, *x),
                ThriftProtocolError::InvalidElementType(x) => (INVALID_ELEMENT_TYPE, *x),
                ThriftProtocolError::FieldDeltaOverflow { .. } => (FIELD_DELTA_OVERFLOW, 0),
                ThriftProtocolError::InvalidBoolean(x) => (INVALID_BOOLEAN, *x),
                ThriftProtocolError::IntegerOverflow => (INTEGER_OVERFLOW, 0),
                ThriftProtocolError::Utf8Error => (8, 0),
                ThriftProtocolError::SkipDepth(_) => (9, 0),
                ThriftProtocolError::SkipUnsupportedType(_) => (SKIP_UNSUPPORTED, 0),
            };
            std::mem::forget(e);
            R { v: None, code, pay }
        }
    }
}

/// bytes consumed so far; asserts that the remaining slice is a suffix of input[..n]
fn consumed(p: &ThriftSliceInputProtocol<'_>, input: &[u8], n: usize) -> usize {
    let rest = p.as_slice();
    assert!(rest.len() <= n);
    let c = n - rest.len();
    assert!(rest.as_ptr() == input[c..].as_ptr());
    c
}

/// ULEB128 model: Some((value mod 2^64 of the first `used` groups, used)) if a byte without
/// continuation bit occurs in buf[at..n], else None. Groups beyond bit 63 are ignored by the model.
fn spec_vlq(buf: &[u8], at: usize, n: usize) -> Option<(u64, usize)> {
    let mut v = 0u64;
    let mut i = 0;
    while at + i < n {
        let b = buf[at + i];
        if 7 * i < 64 {
            v |= ((b & 0x7f) as u64) << (7 * i);
        }
        if b & 0x80 == 0 {
            return Some((v, i + 1));
        }
        i += 1;
    }
    None
}

fn unzigzag(u: u64) -> i64 {
    // n even -> n/2 ; n odd -> -(n+1)/2, computed in 128 bits
    let w = u as i128;
    (if u & 1 == 0 { w / 2 } else { -((w + 1) / 2) }) as i64
}

// Contract (C08): read_byte returns Ok(first byte) and advances by one iff the input is non-empty,
// else Err(Eof) and stays; read_i8 is the same byte as i8; read_field_header splits it into
// (low nibble, high nibble); read_bool: 1 -> true, 0 or 2 -> false, anything else Err(InvalidBoolean)
// (one byte consumed whenever there was one); skip_empty_struct: Ok iff the byte is 0.
// Stub: alloc::fmt::format.
// NOT CONFIRMED: did not finish within 900 s under a machine load of 50-80 (see REPORT: skip_empty_struct / read_string / skip recursion are the likely cost drivers)
// @unit name=thrift_read_byte_family props=C08 kind=bounded bound=input<=12_bytes fns=ThriftSliceInputProtocol::read_byte,ThriftCompactInputProtocol::read_i8,ThriftCompactInputProtocol::read_field_header,ThriftCompactInputProtocol::read_bool,ThriftCompactInputProtocol::skip_empty_struct,ThriftSliceInputProtocol::as_slice tier=thorough timeout=900
#[kani::proof]
#[kani::stub(alloc::fmt::format, stub_format)]
fn thrift_read_byte_family() {
    let (a, n) = any_input::<12>();
    let mut p = ThriftSliceInputProtocol::new(&a[..n]);
    let which: u8 = kani::any();
    match which {
        0 => {
            let r = take(p.read_byte());
            assert!(r.is_ok() == (n >= 1));
            if let Some(b) = r.v {
                assert!(b == a[0]);
            } else {
                assert!(r.code == EOF);
            }
        }
        1 => {
            let r = take(p.read_i8());
            assert!(r.is_ok() == (n >= 1));
            if let Some(b) = r.v {
                assert!(b == a[0] as i8);
            }
        }
        2 => {
            let r = take(p.read_field_header());
            assert!(r.is_ok() == (n >= 1));
            if let Some((t, d)) = r.v {
                assert!(t == a[0] % 16 && d == a[0] / 16);
            }
        }
        3 => {
            let r = take(p.read_bool());
            match r.v {
                Some(v) => assert!(n >= 1 && (if v { a[0] == 1 } else { a[0] == 0 || a[0] == 2 })),
                None => {
                    if r.code == EOF {
                        assert!(n == 0);
                    } else {
                        assert!(r.code == INVALID_BOOLEAN && n >= 1 && r.pay == a[0] && a[0] > 2);
                    }
                }
            }
        }
        _ => {
            let r = p.skip_empty_struct();
            assert!(r.is_ok() == (n >= 1 && a[0] == 0));
            std::mem::forget(r);
        }
    }
    assert!(consumed(&p, &a, n) == if n >= 1 { 1 } else { 0 });
    kani::cover!(which == 0 && n == 0);
    kani::cover!(which == 3 && n == 12 && a[0] == 2);
    kani::cover!(which == 3 && a[0] == 3 && n > 0);
    kani::cover!(which == 4 && n == 1 && a[0] == 0);
}

// Contract (C08): read_vlq on arbitrary input: Ok(v) iff some byte without continuation bit occurs;
// exactly the bytes up to and including it are consumed; for encodings of <= 10 bytes v is the ULEB128
// value mod 2^64 (longer, non-canonical encodings yield an unspecified integer but neither an error nor a
// panic); otherwise Err(Eof) with the whole input consumed. read_zig_zag / read_i64 / read_i32 / read_i16
// return the zig-zag decoding of the same value (truncated to the target width, as the code documents by
// `as _`); skip_vlq consumes the same bytes.
fn read_vlq_family<const N: usize>() {
    let (a, n) = any_input::<N>();
    let mut p = ThriftSliceInputProtocol::new(&a[..n]);
    let model = spec_vlq(&a, 0, n);
    let which: u8 = kani::any();
    let ok;
    match which {
        0 => {
            let r = take(p.read_vlq());
            ok = r.is_ok();
            if let Some(v) = r.v {
                assert!(model.is_some());
                assert!(model.unwrap().1 > 10 || v == model.unwrap().0);
            } else {
                assert!(r.code == EOF);
            }
        }
        1 => {
            let r = take(p.read_zig_zag());
            ok = r.is_ok();
            if let Some(v) = r.v {
                assert!(model.is_some());
                assert!(model.unwrap().1 > 10 || v == unzigzag(model.unwrap().0));
            }
        }
        2 => {
            let r = take(p.read_i64());
            ok = r.is_ok();
            if let Some(v) = r.v {
                assert!(model.is_some());
                assert!(model.unwrap().1 > 10 || v == unzigzag(model.unwrap().0));
            }
        }
        3 => {
            let r = take(p.read_i32());
            ok = r.is_ok();
            if let Some(v) = r.v {
                assert!(model.is_some());
                assert!(model.unwrap().1 > 10 || v == unzigzag(model.unwrap().0) as i32);
            }
        }
        4 => {
            let r = take(p.read_i16());
            ok = r.is_ok();
            if let Some(v) = r.v {
                assert!(model.is_some());
                assert!(model.unwrap().1 > 10 || v == unzigzag(model.unwrap().0) as i16);
            }
        }
        _ => {
            let r = take(p.skip_vlq());
            ok = r.is_ok();
        }
    }
    assert!(ok == model.is_some());
    let c = consumed(&p, &a, n);
    match model {
        Some((_, used)) => assert!(c == used),
        None => assert!(c == n),
    }
    kani::cover!(which == 0 && ok && c == 10);
    kani::cover!(which == 0 && ok && c == N && N > 10);
    kani::cover!(which == 0 && !ok && n == N);
    kani::cover!(which == 1 && ok && c == 10 && a[9] == 1);
    kani::cover!(which == 4 && ok && c == 3);
    kani::cover!(which == 5 && ok && c == 2);
    kani::cover!(n == 0);
}
// @unit name=thrift_read_vlq_family_12 props=C08 kind=bounded bound=input<=12_bytes fns=ThriftCompactInputProtocol::read_vlq,ThriftCompactInputProtocol::read_zig_zag,ThriftCompactInputProtocol::read_i16,ThriftCompactInputProtocol::read_i32,ThriftCompactInputProtocol::read_i64,ThriftCompactInputProtocol::skip_vlq timeout=900 mem=3 tier=thorough
#[kani::proof]
#[kani::unwind(14)]
fn thrift_read_vlq_family_12() {
    read_vlq_family::<12>()
}
// NOT CONFIRMED: did not finish within 900 s under a machine load of 50-80 (see REPORT: skip_empty_struct / read_string / skip recursion are the likely cost drivers)
// @unit name=thrift_read_vlq_family_24 props=C08 kind=bounded bound=input<=24_bytes fns=ThriftCompactInputProtocol::read_vlq,ThriftCompactInputProtocol::read_zig_zag,ThriftCompactInputProtocol::read_i16,ThriftCompactInputProtocol::read_i32,ThriftCompactInputProtocol::read_i64,ThriftCompactInputProtocol::skip_vlq tier=thorough timeout=900 mem=4
#[kani::proof]
#[kani::unwind(26)]
fn thrift_read_vlq_family_24() {
    read_vlq_family::<24>()
}

// Contract (C08): read_bytes / skip_binary / read_string on arbitrary input: the length prefix is read as
// read_vlq; Ok iff the prefix terminates AND the announced length fits in what is left (no wrap-around, no
// over-read: Err(Eof) otherwise); on Ok the returned slice is exactly input[used .. used+len] (same
// memory: pointer and length) and the cursor sits right behind it. read_string additionally requires
// valid UTF-8 and returns the same bytes. skip_bytes(k): Ok and advance by k iff k <= remaining, else
// Err(Eof) without moving. read_double: Ok iff 8 bytes remain; the value has exactly those bits.
fn read_bytes_family<const N: usize>() {
    let (a, n) = any_input::<N>();
    let mut p = ThriftSliceInputProtocol::new(&a[..n]);
    let which: u8 = kani::any();
    match which {
        0 | 1 | 2 => {
            let model = spec_vlq(&a, 0, n);
            let (got_ok, got_ptr, got_len) = match which {
                0 => {
                    let r = take(p.read_bytes());
                    match r.v {
                        Some(s) => (true, s.as_ptr(), s.len()),
                        None => {
                            assert!(r.code == EOF);
                            (false, a.as_ptr(), 0)
                        }
                    }
                }
                1 => (take(p.skip_binary()).is_ok(), a.as_ptr(), 0),
                _ => match take(p.read_string()).v {
                    Some(s) => (true, s.as_ptr(), s.len()),
                    None => (false, a.as_ptr(), 0),
                },
            };
            let c = consumed(&p, &a, n);
            match model {
                None => assert!(!got_ok && c == n),
                Some((len, used)) => {
                    if used <= 10 {
                        let fits = len <= (n - used) as u64;
                        if which != 2 {
                            assert!(got_ok == fits);
                        } else {
                            assert!(!got_ok || fits);
                        }
                        if fits && (got_ok || which == 2) {
                            assert!(c == used + len as usize);
                        }
                        if !fits {
                            assert!(c == used);
                        }
                        if got_ok && which != 1 {
                            assert!(got_len as u64 == len && got_ptr == a[used..].as_ptr());
                        }
                    } else {
                        // non-canonical prefix: unspecified length, but still inside the input
                        assert!(c >= used && c <= n);
                    }
                }
            }
            kani::cover!(which == 0 && got_ok && got_len == 3 && c == n);
            kani::cover!(which == 0 && got_ok && got_len == 0);
            kani::cover!(which == 0 && !got_ok && model.is_some() && model.unwrap().1 == 1);
            kani::cover!(which == 0 && !got_ok && model.is_some() && model.unwrap().1 == 10); // huge length
            kani::cover!(which == 1 && got_ok && c == 5);
            kani::cover!(which == 2 && got_ok && got_len == 2);
            kani::cover!(which == 2 && !got_ok && model.is_some() && model.unwrap().0 == 1 && n >= 2); // bad UTF-8
        }
        3 => {
            let k: usize = kani::any();
            let r = take(p.skip_bytes(k));
            assert!(r.is_ok() == (k <= n));
            assert!(consumed(&p, &a, n) == if k <= n { k } else { 0 });
            kani::cover!(r.is_ok() && k == n);
            kani::cover!(r.is_err() && k == usize::MAX);
        }
        _ => {
            let r = take(p.read_double());
            assert!(r.is_ok() == (n >= 8));
            if let Some(d) = r.v {
                let bits = d.to_bits();
                let j: usize = kani::any();
                kani::assume(j < 64);
                assert!(((bits >> j) & 1 == 1) == bit(&a, j));
            }
            assert!(consumed(&p, &a, n) == if n >= 8 { 8 } else { 0 });
            kani::cover!(r.is_ok() && n == 8);
            kani::cover!(r.is_err() && n == 7);
        }
    }
}
// NOT CONFIRMED: did not finish within 900 s under a machine load of 50-80 (see REPORT: skip_empty_struct / read_string / skip recursion are the likely cost drivers)
// @unit name=thrift_read_bytes_family_12 props=C08 kind=bounded bound=input<=12_bytes fns=ThriftSliceInputProtocol::read_bytes,ThriftCompactInputProtocol::skip_binary,ThriftCompactInputProtocol::read_string,ThriftSliceInputProtocol::skip_bytes,ThriftSliceInputProtocol::read_double timeout=900 mem=3 tier=thorough
#[kani::proof]
#[kani::unwind(14)]
fn thrift_read_bytes_family_12() {
    read_bytes_family::<12>()
}
// NOT CONFIRMED: did not finish within 900 s under a machine load of 50-80 (see REPORT: skip_empty_struct / read_string / skip recursion are the likely cost drivers)
// @unit name=thrift_read_bytes_family_24 props=C08 kind=bounded bound=input<=24_bytes fns=ThriftSliceInputProtocol::read_bytes,ThriftCompactInputProtocol::skip_binary,ThriftCompactInputProtocol::read_string,ThriftSliceInputProtocol::skip_bytes,ThriftSliceInputProtocol::read_double tier=thorough timeout=900 mem=4
#[kani::proof]
#[kani::unwind(26)]
fn thrift_read_bytes_family_24() {
    read_bytes_family::<24>()
}

/// thrift compact element-type nibble -> ElementType, per the compact-protocol document (1 and 2 both mean bool)
fn spec_element_type(nib: u8) -> Option<ElementType> {
    match nib {
        1 | 2 => Some(ElementType::Bool),
        3 => Some(ElementType::Byte),
        4 => Some(ElementType::I16),
        5 => Some(ElementType::I32),
        6 => Some(ElementType::I64),
        7 => Some(ElementType::Double),
        8 => Some(ElementType::Binary),
        9 => Some(ElementType::List),
        10 => Some(ElementType::Set),
        11 => Some(ElementType::Map),
        12 => Some(ElementType::Struct),
        13 => Some(ElementType::Uuid),
        _ => None,
    }
}

// Contract (C08): read_list_begin on arbitrary input. Header byte 0 -> (Byte, 0) [documented leniency];
// otherwise the low nibble must be a valid element type (else Err(InvalidElementType), one byte consumed);
// a high nibble s < 15 is the size; s = 15 means a ULEB128 size follows, which must terminate (else Eof)
// and be <= i32::MAX (else Err(IntegerOverflow)) — so the reported size is never negative and never
// wraps. Bytes consumed: 1 or 1 + varint length.
// @unit name=thrift_read_list_begin props=C08 kind=bounded bound=input<=12_bytes fns=ThriftCompactInputProtocol::read_list_begin,ElementType::try_from timeout=480 mem=3
#[kani::proof]
#[kani::unwind(14)]
fn thrift_read_list_begin() {
    let (a, n) = any_input::<12>();
    let mut p = ThriftSliceInputProtocol::new(&a[..n]);
    let r = take(p.read_list_begin());
    let c = consumed(&p, &a, n);
    if n == 0 {
        assert!(r.code == EOF && c == 0);
    } else if a[0] == 0 {
        assert!(c == 1 && r.is_ok());
        let l = r.v.as_ref().unwrap();
        assert!(l.element_type == ElementType::Byte && l.size == 0);
    } else {
        let et = spec_element_type(a[0] & 0x0f);
        let s = a[0] >> 4;
        if et.is_none() {
            assert!(r.code == INVALID_ELEMENT_TYPE && r.pay == a[0] & 0x0f && c == 1);
        } else if s < 15 {
            assert!(c == 1 && r.is_ok());
            let l = r.v.as_ref().unwrap();
            assert!(l.element_type == et.unwrap() && l.size == s as i32);
        } else {
            match spec_vlq(&a, 1, n) {
                None => assert!(r.code == EOF && c == n),
                Some((v, used)) => {
                    assert!(c == 1 + used);
                    if used <= 10 {
                        if v <= i32::MAX as u64 {
                            assert!(r.is_ok());
                            let l = r.v.as_ref().unwrap();
                            assert!(l.element_type == et.unwrap() && l.size as u64 == v && l.size >= 0);
                        } else {
                            assert!(r.code == INTEGER_OVERFLOW);
                        }
                    } else if let Some(l) = &r.v {
                        assert!(l.size >= 0);
                    }
                }
            }
        }
    }
    kani::cover!(n > 0 && a[0] == 0);
    kani::cover!(n > 0 && a[0] == 0xe1);
    kani::cover!(n > 5 && a[0] == 0xfc && c == 6);
    kani::cover!(n > 5 && a[0] == 0xf5 && c == 6 && a[5] == 0x08); // 2^31: overflow
    kani::cover!(n > 0 && a[0] == 0x1e);
}

fn spec_field_type(nib: u8) -> Option<FieldType> {
    match nib {
        0 => Some(FieldType::Stop),
        1 => Some(FieldType::BooleanTrue),
        2 => Some(FieldType::BooleanFalse),
        3 => Some(FieldType::Byte),
        4 => Some(FieldType::I16),
        5 => Some(FieldType::I32),
        6 => Some(FieldType::I64),
        7 => Some(FieldType::Double),
        8 => Some(FieldType::Binary),
        9 => Some(FieldType::List),
        10 => Some(FieldType::Set),
        11 => Some(FieldType::Map),
        12 => Some(FieldType::Struct),
        13 => Some(FieldType::Uuid),
        _ => None,
    }
}

// Contract (C08): read_field_begin(last) on arbitrary input and any last field id. Low nibble 0 ->
// (Stop, 0); low nibble 14/15 -> Err(InvalidFieldType); otherwise with delta d = high nibble: d != 0 ->
// id = last + d computed without wrap-around (Err(FieldDeltaOverflow) if it exceeds i16::MAX); d = 0 ->
// the id is the following zig-zag varint (truncated to i16), Eof if it does not terminate.
// FieldIdentifier::bool_val is Ok(true)/Ok(false) exactly for the two boolean types.
// @unit name=thrift_read_field_begin props=C08 kind=bounded bound=input<=12_bytes fns=ThriftCompactInputProtocol::read_field_begin,ThriftCompactInputProtocol::read_full_field_id,FieldType::try_from,FieldIdentifier::bool_val timeout=480 mem=3
#[kani::proof]
#[kani::unwind(14)]
fn thrift_read_field_begin() {
    let (a, n) = any_input::<12>();
    let last: i16 = kani::any();
    let mut p = ThriftSliceInputProtocol::new(&a[..n]);
    let r = take(p.read_field_begin(last));
    let c = consumed(&p, &a, n);
    if n == 0 {
        assert!(r.code == EOF && c == 0);
    } else {
        let ft = spec_field_type(a[0] & 0x0f);
        let d = a[0] >> 4;
        match ft {
            None => assert!(r.code == INVALID_FIELD_TYPE && r.pay == a[0] & 0x0f && c == 1),
            Some(FieldType::Stop) => {
                assert!(r.is_ok());
                let f = r.v.as_ref().unwrap();
                assert!(f.field_type == FieldType::Stop && f.id == 0 && c == 1);
            }
            Some(t) => {
                if d != 0 {
                    assert!(c == 1);
                    let sum = last as i32 + d as i32;
                    if sum <= i16::MAX as i32 {
                        assert!(r.is_ok());
                        let f = r.v.as_ref().unwrap();
                        assert!(f.field_type == t && f.id as i32 == sum);
                        let bv = take(f.bool_val());
                        assert!(bv.is_ok() == (t == FieldType::BooleanTrue || t == FieldType::BooleanFalse));
                        if let Some(x) = bv.v {
                            assert!(x == (t == FieldType::BooleanTrue));
                        }
                    } else {
                        assert!(r.code == FIELD_DELTA_OVERFLOW);
                    }
                } else {
                    match spec_vlq(&a, 1, n) {
                        None => assert!(r.code == EOF && c == n),
                        Some((v, used)) => {
                            assert!(c == 1 + used && r.is_ok());
                            let f = r.v.as_ref().unwrap();
                            assert!(f.field_type == t);
                            assert!(used > 10 || f.id == unzigzag(v) as i16);
                        }
                    }
                }
            }
        }
    }
    kani::cover!(n > 0 && a[0] == 0x10);
    kani::cover!(n > 0 && a[0] == 0xf1 && last == i16::MAX - 14);
    kani::cover!(n > 0 && a[0] == 0x1f);
    kani::cover!(n > 3 && a[0] == 0x05 && c == 3);
    kani::cover!(n > 0 && a[0] == 0x22 && last == -5);
}

// Contract (C08): skip(field_type) for every scalar field type on arbitrary input: booleans consume
// nothing; Byte one byte; I16/I32/I64 one varint; Double 8 bytes; Uuid 16 bytes; Binary a length-prefixed
// string; Stop is Err(SkipUnsupportedType). Ok iff the input holds that many bytes, else Err(Eof); never
// panics; consumed <= n. (Containers: thrift_skip_containers.)
// NOT CONFIRMED: did not finish within 900 s under a machine load of 50-80 (see REPORT: skip_empty_struct / read_string / skip recursion are the likely cost drivers)
// @unit name=thrift_skip_scalar props=C08 kind=bounded bound=input<=20_bytes fns=ThriftCompactInputProtocol::skip,ThriftCompactInputProtocol::skip_till_depth timeout=900 mem=3 tier=thorough
#[kani::proof]
#[kani::unwind(22)]
fn thrift_skip_scalar() {
    let (a, n) = any_input::<20>();
    let mut p = ThriftSliceInputProtocol::new(&a[..n]);
    let nib: u8 = kani::any();
    kani::assume(nib <= 8 || nib == 13);
    let ft = spec_field_type(nib).unwrap();
    let r = take(p.skip(ft));
    let c = consumed(&p, &a, n);
    match nib {
        0 => assert!(r.code == SKIP_UNSUPPORTED && c == 0),
        1 | 2 => assert!(r.is_ok() && c == 0),
        3 => assert!(r.is_ok() == (n >= 1) && c == if n >= 1 { 1 } else { 0 }),
        4 | 5 | 6 => match spec_vlq(&a, 0, n) {
            Some((_, used)) => assert!(r.is_ok() && c == used),
            None => assert!(r.is_err() && c == n),
        },
        7 => assert!(r.is_ok() == (n >= 8) && c == if n >= 8 { 8 } else { 0 }),
        13 => assert!(r.is_ok() == (n >= 16) && c == if n >= 16 { 16 } else { 0 }),
        _ => match spec_vlq(&a, 0, n) {
            None => assert!(r.is_err() && c == n),
            Some((len, used)) => {
                if used <= 10 {
                    let fits = len <= (n - used) as u64;
                    assert!(r.is_ok() == fits);
                    assert!(c == if fits { used + len as usize } else { used });
                }
            }
        },
    }
    kani::cover!(nib == 13 && r.is_ok());
    kani::cover!(nib == 13 && r.is_err() && n == 15);
    kani::cover!(nib == 8 && r.is_ok() && c == 20);
    kani::cover!(nib == 6 && r.is_ok() && c == 10);
    kani::cover!(nib == 7 && r.is_err());
}

// Contract (C08): skip(Struct | List | Set | Map) on arbitrary SHORT input: returns (Ok or Err), never
// panics, never reads outside the input, and the recursion/loops are bounded by the input (every nesting
// level consumes at least one byte). Bound: input <= 5 bytes and — to keep the element loops within the
// unwinding bound — no input byte with high nibble 0xF (excludes long-form list headers: list sizes <= 14)
// and map sizes <= 14 by the same restriction on the size varint... see bound=.
// NOT CONFIRMED: did not finish within 900 s under a machine load of 50-80 (see REPORT: skip_empty_struct / read_string / skip recursion are the likely cost drivers)
// @unit name=thrift_skip_containers props=C08 kind=bounded bound=input<=5_bytes_every_byte<0x0f fns=ThriftCompactInputProtocol::skip,ThriftCompactInputProtocol::skip_till_depth tier=thorough timeout=900 mem=6
#[kani::proof]
#[kani::unwind(17)]
fn thrift_skip_containers() {
    let (a, n) = any_input::<5>();
    // every byte <= 0x0e: container sizes (short-form list nibble is 0, map size varint <= 14) stay <= 14
    let mut i = 0;
    while i < 5 {
        kani::assume(a[i] <= 0x0e);
        i += 1;
    }
    let mut p = ThriftSliceInputProtocol::new(&a[..n]);
    let nib: u8 = kani::any();
    kani::assume(nib >= 9 && nib <= 12);
    let ft = spec_field_type(nib).unwrap();
    let r = take(p.skip(ft));
    let c = consumed(&p, &a, n);
    assert!(c <= n);
    if r.is_ok() {
        assert!(c >= 1);
    }
    kani::cover!(nib == 12 && r.is_ok() && c == 1);
    kani::cover!(nib == 12 && r.is_ok() && c == 5);
    kani::cover!(nib == 11 && r.is_ok() && c == 1);
    kani::cover!(nib == 11 && r.is_ok() && c > 2);
    kani::cover!(nib == 9 && r.is_err());
}

// ---------------------------------------------------------------------------------------------
// C05/C08: writer -> reader round trips (sink = fixed &mut [u8], nothing allocates)
// ---------------------------------------------------------------------------------------------

// Contract (C05): for every u64 v, write_vlq(v) emits the canonical ULEB128 string (1..=10 bytes, length
// max(1, ceil(bitlen/7)), last byte < 0x80, no trailing zero group) and read_vlq on exactly those bytes
// returns v and consumes all of them. For every i64 x, write_zig_zag(x) then read_zig_zag returns x;
// write_i64/i32/i16 then read_i64/i32/i16 likewise.
// Stub: alloc::fmt::format.
// @unit name=thrift_vlq_roundtrip props=C05,C08 kind=complete fns=ThriftCompactOutputProtocol::write_vlq,ThriftCompactOutputProtocol::write_byte,ThriftCompactInputProtocol::read_vlq timeout=480 mem=3
#[kani::proof]
#[kani::unwind(12)]
#[kani::stub(alloc::fmt::format, stub_format)]
fn thrift_vlq_roundtrip() {
    let v: u64 = kani::any();
    let mut buf = [0u8; 12];
    let mut w = ThriftCompactOutputProtocol::new(&mut buf[..]);
    let r = w.write_vlq(v);
    assert!(r.is_ok());
    std::mem::forget(r);
    let len = 12 - w.writer.len();
    let bitlen = 64 - v.leading_zeros() as usize;
    assert!(len == if v == 0 { 1 } else { (bitlen + 6) / 7 });
    assert!(buf[len - 1] < 0x80 && (len == 1 || buf[len - 1] != 0));
    let mut p = ThriftSliceInputProtocol::new(&buf[..len]);
    let got = take(p.read_vlq());
    assert!(got.v == Some(v));
    assert!(p.as_slice().is_empty());
    kani::cover!(len == 1);
    kani::cover!(len == 10);
}

// @unit name=thrift_zigzag_roundtrip props=C05,C08 kind=complete fns=ThriftCompactOutputProtocol::write_zig_zag,ThriftCompactOutputProtocol::write_i64,ThriftCompactOutputProtocol::write_i32,ThriftCompactOutputProtocol::write_i16,ThriftCompactInputProtocol::read_zig_zag,ThriftCompactInputProtocol::read_i64,ThriftCompactInputProtocol::read_i32,ThriftCompactInputProtocol::read_i16 timeout=900 mem=3 tier=thorough
#[kani::proof]
#[kani::unwind(12)]
#[kani::stub(alloc::fmt::format, stub_format)]
fn thrift_zigzag_roundtrip() {
    let x: i64 = kani::any();
    let which: u8 = kani::any();
    let mut buf = [0u8; 12];
    let mut w = ThriftCompactOutputProtocol::new(&mut buf[..]);
    let r = match which {
        0 => w.write_zig_zag(x),
        1 => w.write_i64(x),
        2 => w.write_i32(x as i32),
        _ => w.write_i16(x as i16),
    };
    assert!(r.is_ok());
    std::mem::forget(r);
    let len = 12 - w.writer.len();
    assert!(len >= 1 && len <= 10);
    // small magnitudes are short: |x| < 64 -> one byte
    if x >= -64 && x < 64 {
        assert!(len == 1);
    }
    let mut p = ThriftSliceInputProtocol::new(&buf[..len]);
    match which {
        0 => assert!(take(p.read_zig_zag()).v == Some(x)),
        1 => assert!(take(p.read_i64()).v == Some(x)),
        2 => assert!(take(p.read_i32()).v == Some(x as i32)),
        _ => assert!(take(p.read_i16()).v == Some(x as i16)),
    }
    assert!(p.as_slice().is_empty());
    kani::cover!(which == 0 && x == i64::MIN && len == 10);
    kani::cover!(which == 1 && x == i64::MAX);
    kani::cover!(which == 2 && x as i32 == i32::MIN && len == 5);
    kani::cover!(which == 3 && x as i16 == -1 && len == 1);
}

// Contract (C05): the remaining scalar writers round-trip through their readers: write_double (all bit
// patterns, NaN payloads included) -> read_double bit-exact in 8 bytes; write_bool -> read_bool;
// write_i8 -> read_i8; write_bytes(s) (|s| <= 4) -> read_bytes returns the same bytes;
// write_list_begin(t, len) (len <= i32::MAX, as thrift requires) -> read_list_begin = (t, len);
// write_field_begin(t, id, last) (t != Stop) -> read_field_begin(last) = (t, id), for every pair of non-negative ids
// (short delta form and full-id form); write_struct_end -> Stop; everything consumed.
// Stub: alloc::fmt::format.
// NOT CONFIRMED: did not finish within 900 s under a machine load of 50-80 (see REPORT: skip_empty_struct / read_string / skip recursion are the likely cost drivers)
// @unit name=thrift_scalar_roundtrip props=C05,C08 kind=bounded bound=binary_payload<=4_bytes fns=ThriftCompactOutputProtocol::write_double,ThriftCompactOutputProtocol::write_bool,ThriftCompactOutputProtocol::write_i8,ThriftCompactOutputProtocol::write_bytes,ThriftCompactOutputProtocol::write_list_begin,ThriftCompactOutputProtocol::write_field_begin,ThriftCompactOutputProtocol::write_struct_end,ThriftCompactInputProtocol::read_list_begin,ThriftCompactInputProtocol::read_field_begin timeout=900 mem=3 tier=thorough
#[kani::proof]
#[kani::unwind(12)]
#[kani::stub(alloc::fmt::format, stub_format)]
fn thrift_scalar_roundtrip() {
    let which: u8 = kani::any();
    let mut buf = [0u8; 16];
    let mut w = ThriftCompactOutputProtocol::new(&mut buf[..]);
    match which {
        0 => {
            let bits: u64 = kani::any();
            let r = w.write_double(f64::from_bits(bits));
            assert!(r.is_ok());
            std::mem::forget(r);
            let len = 16 - w.writer.len();
            assert!(len == 8);
            let mut p = ThriftSliceInputProtocol::new(&buf[..len]);
            assert!(matches!(take(p.read_double()).v, Some(d) if d.to_bits() == bits));
            assert!(p.as_slice().is_empty());
            kani::cover!(f64::from_bits(bits).is_nan());
        }
        1 => {
            let b: bool = kani::any();
            let r = w.write_bool(b);
            assert!(r.is_ok());
            std::mem::forget(r);
            let len = 16 - w.writer.len();
            assert!(len == 1);
            let mut p = ThriftSliceInputProtocol::new(&buf[..len]);
            assert!(take(p.read_bool()).v == Some(b));
            kani::cover!(b);
            kani::cover!(!b);
        }
        2 => {
            let b: i8 = kani::any();
            let r = w.write_i8(b);
            assert!(r.is_ok());
            std::mem::forget(r);
            let len = 16 - w.writer.len();
            assert!(len == 1);
            let mut p = ThriftSliceInputProtocol::new(&buf[..len]);
            assert!(take(p.read_i8()).v == Some(b));
            kani::cover!(b < 0);
        }
        3 => {
            let s: [u8; 4] = kani::any();
            let k: usize = kani::any();
            kani::assume(k <= 4);
            let r = w.write_bytes(&s[..k]);
            assert!(r.is_ok());
            std::mem::forget(r);
            let len = 16 - w.writer.len();
            assert!(len == 1 + k);
            let mut p = ThriftSliceInputProtocol::new(&buf[..len]);
            match take(p.read_bytes()).v {
                Some(t) => {
                    assert!(t.len() == k);
                    let i: usize = kani::any();
                    kani::assume(i < k);
                    assert!(t[i] == s[i]);
                }
                None => assert!(false),
            }
            assert!(p.as_slice().is_empty());
            kani::cover!(k == 0);
            kani::cover!(k == 4);
        }
        4 => {
            let nib: u8 = kani::any();
            kani::assume(nib >= 2 && nib <= 13);
            let t = spec_element_type(nib).unwrap();
            let n: usize = kani::any();
            kani::assume(n <= i32::MAX as usize);
            let r = w.write_list_begin(t, n);
            assert!(r.is_ok());
            std::mem::forget(r);
            let len = 16 - w.writer.len();
            assert!((len == 1) == (n < 15) && len <= 6);
            let mut p = ThriftSliceInputProtocol::new(&buf[..len]);
            match take(p.read_list_begin()).v {
                Some(l) => assert!(l.element_type == t && l.size as usize == n),
                None => assert!(false),
            }
            assert!(p.as_slice().is_empty());
            kani::cover!(n == 0);
            kani::cover!(n == 14);
            kani::cover!(n == 15);
            kani::cover!(n == i32::MAX as usize);
        }
        _ => {
            let nib: u8 = kani::any();
            kani::assume(nib >= 1 && nib <= 13);
            let t = spec_field_type(nib).unwrap();
            let id: i16 = kani::any();
            let last: i16 = kani::any();
            // precondition from the call sites: thrift field ids are non-negative (struct definitions use
            // 1.., last_field_id starts at 0); with negative ids the writer's wrapping delta and the reader's
            // checked addition disagree (e.g. last = i16::MAX, id = i16::MIN)
            kani::assume(id >= 0 && last >= 0);
            let r = w.write_field_begin(t, id, last);
            assert!(r.is_ok());
            std::mem::forget(r);
            let r = w.write_struct_end();
            assert!(r.is_ok());
            std::mem::forget(r);
            let len = 16 - w.writer.len();
            let short = (id as i32 - last as i32) >= 1 && (id as i32 - last as i32) <= 15;
            // the short one-byte form is used whenever the delta is 1..=15 (wrapping deltas fall back to the full form)
            assert!(!(len == 2) || short);
            let mut p = ThriftSliceInputProtocol::new(&buf[..len]);
            match take(p.read_field_begin(last)).v {
                Some(f) => assert!(f.field_type == t && f.id == id),
                None => assert!(false),
            }
            match take(p.read_field_begin(id)).v {
                Some(f) => assert!(f.field_type == FieldType::Stop),
                None => assert!(false),
            }
            assert!(p.as_slice().is_empty());
            kani::cover!(len == 2);
            kani::cover!(len == 5 && id == i16::MAX);
            kani::cover!(id == last);
            kani::cover!(last == i16::MAX && id == 0);
        }
    }
}
