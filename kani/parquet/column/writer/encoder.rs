// Kani contract harnesses for /repo/parquet/src/column/writer/encoder.rs (child module: sees private items via super::)
