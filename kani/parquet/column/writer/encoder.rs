// Kani contract harnesses for /repo/parquet/src/column/writer/encoder.rs (child module: sees private items via super::)
use super::*;
#[path = "/verif/kani/support/spec.rs"]
mod spec;
#[allow(unused_imports)]
use spec::*;
use crate::basic::{ConvertedType, Type};
use crate::schema::types::ColumnDescriptor;

fn mk_descr(phys: Type, conv: ConvertedType) -> ColumnDescriptor {
    let t = crate::schema::types::Type::primitive_type_builder("c", phys).with_converted_type(conv).build().unwrap();
    ColumnDescriptor::new(std::sync::Arc::new(t), 0, 0, crate::schema::types::ColumnPath::new(Vec::new()))
}
fn ieee_nan32(bits: u32) -> bool { (bits >> 23) & 0xff == 0xff && bits & 0x7f_ffff != 0 }

// Contract (C07): get_min_max over a batch of N f32 values (the page/chunk statistics of a FLOAT column):
//   None <=> the batch is empty; otherwise Some((min, max, nan_count)) with
//   nan_count = number of NaN bit patterns in the batch (exact);
//   if some value is not NaN: min and max are non-NaN elements of the batch (attained) and
//   key(min) <= key(v) <= key(max) for EVERY non-NaN v under IEEE totalOrder (bounds never exclude present data);
//   if all values are NaN: min and max are elements of the batch (NaN), min <= max under totalOrder.
macro_rules! min_max_f32_unit {
    ($name:ident, $n:expr) => {
        #[kani::proof]
        #[kani::unwind(6)]
        #[kani::stub(alloc::fmt::format, stub_format)]
        fn $name() {
            let d = mk_descr(Type::FLOAT, ConvertedType::NONE);
            let bits: [u32; $n] = kani::any();
            let mut vals = [0f32; $n];
            let (mut i, mut nans) = (0, 0u64);
            while i < $n { vals[i] = f32::from_bits(bits[i]); if ieee_nan32(bits[i]) { nans += 1; } i += 1; }
            match get_min_max(d.get_basic_info(), vals.iter()) {
                None => assert!($n == 0),
                Some((mn, mx, nc)) => {
                    let (mn, mx) = (mn.to_bits(), mx.to_bits());
                    assert!(nc == nans);
                    let (mut mn_in, mut mx_in, mut i) = (false, false, 0);
                    while i < $n {
                        if bits[i] == mn { mn_in = true; }
                        if bits[i] == mx { mx_in = true; }
                        if !ieee_nan32(bits[i]) { assert!(key32(mn) <= key32(bits[i]) && key32(bits[i]) <= key32(mx)); }
                        i += 1;
                    }
                    assert!(mn_in && mx_in);
                    assert!(key32(mn) <= key32(mx));
                    if nans < $n as u64 { assert!(!ieee_nan32(mn) && !ieee_nan32(mx)); }
                    else { assert!(ieee_nan32(mn) && ieee_nan32(mx)); }
                    kani::cover!($n == 1 || (nans == 1 && ieee_nan32(bits[0])));   // leading NaN is replaced by the first real value
                    kani::cover!(nans == $n as u64);                              // all NaN
                    kani::cover!(nans == 0 && ($n == 1 || mn != mx));
                }
            }
            std::mem::forget(d);
        }
    };
}
// @unit name=get_min_max_f32_n3 props=C07 kind=bounded bound=batch_of_3_values fns=get_min_max,is_nan,compare_greater timeout=600 tier=thorough
min_max_f32_unit!(get_min_max_f32_n3, 3);
// @unit name=get_min_max_f32_n1 props=C07 kind=bounded bound=batch_of_1_value fns=get_min_max,is_nan,compare_greater timeout=600 tier=thorough
min_max_f32_unit!(get_min_max_f32_n1, 1);
// @unit name=get_min_max_f32_n4 props=C07 kind=bounded bound=batch_of_4_values fns=get_min_max,is_nan,compare_greater tier=thorough timeout=900
min_max_f32_unit!(get_min_max_f32_n4, 4);

// Contract (C07): get_min_max over N i32 values of a UINT_32 column uses the UNSIGNED order: min/max are elements,
// (min as u32) <= (v as u32) <= (max as u32) for every v; nan_count = 0. For a plain INT32 column: the signed order.
// @unit name=get_min_max_i32_n3 props=C07 kind=bounded bound=batch_of_3_values fns=get_min_max,compare_greater timeout=600 tier=thorough
#[kani::proof]
#[kani::unwind(6)]
#[kani::stub(alloc::fmt::format, stub_format)]
fn get_min_max_i32_n3() {
    let du = mk_descr(Type::INT32, ConvertedType::UINT_32);
    let ds = mk_descr(Type::INT32, ConvertedType::NONE);
    let v: [i32; 3] = kani::any();
    let (umn, umx, unc) = get_min_max(du.get_basic_info(), v.iter()).unwrap();
    let (smn, smx, snc) = get_min_max(ds.get_basic_info(), v.iter()).unwrap();
    assert!(unc == 0 && snc == 0);
    let mut i = 0; let (mut a, mut b, mut c, mut e) = (false, false, false, false);
    while i < 3 {
        assert!((umn as u32) <= (v[i] as u32) && (v[i] as u32) <= (umx as u32));
        assert!(smn <= v[i] && v[i] <= smx);
        a |= v[i] == umn; b |= v[i] == umx; c |= v[i] == smn; e |= v[i] == smx;
        i += 1;
    }
    assert!(a && b && c && e);
    kani::cover!(umn != smn);
    let empty: [i32; 0] = [];
    assert!(get_min_max(ds.get_basic_info(), empty.iter()).is_none());
    std::mem::forget(du); std::mem::forget(ds);
}
