// Kani contract harnesses for /repo/parquet/src/column/writer/mod.rs (child module: sees private items via super::)
use super::*;
#[path = "/verif/kani/support/spec.rs"]
mod spec;
#[allow(unused_imports)]
use spec::*;

/// value of a big-endian two's-complement byte string of 1..=8 bytes (the DECIMAL BYTE_ARRAY layout)
fn sext(b: &[u8]) -> i128 {
    let mut v: i128 = if b[0] & 0x80 != 0 { -1 } else { 0 };
    let mut i = 0;
    while i < b.len() { v = (v << 8) | b[i] as i128; i += 1; }
    v
}

// Contract (C07): compare_greater_byte_array_decimals(a, b) <=> sext(a) > sext(b), where sext is the value
// of the big-endian two's-complement integer, for byte strings of DIFFERENT or equal lengths (min/max
// statistics of BYTE_ARRAY / FIXED_LEN_BYTE_ARRAY decimal columns must bound every value). Empty strings:
// a > b iff a is non-empty and b is empty (as coded: an empty value sorts lowest).
// Finding F1 (fixed in /repo by a `fix:` commit): before the fix `(&[0x00,0x05], &[0x07])` returned true.
// @unit name=decimals_compare_len4 props=C07 kind=bounded bound=each_value_1..=4_bytes fns=compare_greater_byte_array_decimals timeout=300
#[kani::proof]
#[kani::unwind(6)]
fn decimals_compare_len4() {
    let a: [u8; 4] = kani::any(); let b: [u8; 4] = kani::any();
    let la: usize = kani::any(); let lb: usize = kani::any();
    kani::assume(la >= 1 && la <= 4 && lb >= 1 && lb <= 4);
    let r = compare_greater_byte_array_decimals(&a[..la], &b[..lb]);
    assert!(r == (sext(&a[..la]) > sext(&b[..lb])));
    kani::cover!(la > lb && r);
    kani::cover!(la < lb && !r);
    kani::cover!(la != lb && a[0] == 0 && b[0] == 0);
    kani::cover!(la != lb && a[0] == 0xFF && b[0] == 0xFF);
}

// ---------------------------------------------------------------------------------------------
// float16 / NaN / per-sort-order comparisons
// ---------------------------------------------------------------------------------------------

// Contract (C07): compare_greater_f16(a,b) <=> totalOrder key(a) > key(b) for all 2-byte little-endian
// bit patterns (IEEE-754 totalOrder: -NaN < -inf < ... < -0 < +0 < ... < +inf < +NaN; key16 is the
// sign-magnitude -> two's-complement map).
// @unit name=f16_compare props=C07 kind=complete fns=compare_greater_f16 timeout=120
#[kani::proof]
fn f16_compare() {
    let a: [u8; 2] = kani::any(); let b: [u8; 2] = kani::any();
    let r = compare_greater_f16(&a, &b);
    assert!(r == (key16(u16::from_le_bytes(a)) > key16(u16::from_le_bytes(b))));
    kani::cover!(r);
    kani::cover!(!r && a != b);
    kani::cover!(a == [0x00, 0x00] && b == [0x00, 0x80] && r);   // +0 > -0 under totalOrder
}

/// cheapest way to get a real ColumnDescriptor: the public primitive-type builder (all arguments concrete)
fn mk_descr(phys: Type, conv: ConvertedType, logical: Option<LogicalType>, len: i32, prec: i32, scale: i32) -> ColumnDescriptor {
    let t = crate::schema::types::Type::primitive_type_builder("c", phys)
        .with_converted_type(conv)
        .with_logical_type(logical)
        .with_length(len)
        .with_precision(prec)
        .with_scale(scale)
        .build()
        .unwrap();
    ColumnDescriptor::new(std::sync::Arc::new(t), 0, 0, crate::schema::types::ColumnPath::new(Vec::new()))
}

fn ieee_nan16(bits: u16) -> bool { (bits >> 10) & 0x1f == 0x1f && bits & 0x3ff != 0 }
fn ieee_nan32(bits: u32) -> bool { (bits >> 23) & 0xff == 0xff && bits & 0x7f_ffff != 0 }
fn ieee_nan64(bits: u64) -> bool { (bits >> 52) & 0x7ff == 0x7ff && bits & 0xf_ffff_ffff_ffff != 0 }

// Contract (C07): is_nan::<f32>(v) <=> v's bit pattern is an IEEE-754 NaN (exponent all ones, fraction
// non-zero), for every bit pattern; same for f64; and is_nan is false for every i32/i64 value (integers
// have no NaN) whatever the sort order. Descriptor: FLOAT / DOUBLE / INT32(UINT_32) / INT64 built by the real builder.
// @unit name=is_nan_f32_f64_int props=C07 kind=complete fns=is_nan timeout=300
#[kani::proof]
#[kani::stub(alloc::fmt::format, stub_format)]
fn is_nan_f32_f64_int() {
    let d32 = mk_descr(Type::FLOAT, ConvertedType::NONE, None, -1, -1, -1);
    let x: u32 = kani::any();
    let r = is_nan(d32.get_basic_info(), &f32::from_bits(x));
    assert!(r == ieee_nan32(x));
    kani::cover!(r); kani::cover!(!r);
    let d64 = mk_descr(Type::DOUBLE, ConvertedType::NONE, None, -1, -1, -1);
    let y: u64 = kani::any();
    let r = is_nan(d64.get_basic_info(), &f64::from_bits(y));
    assert!(r == ieee_nan64(y));
    kani::cover!(r); kani::cover!(!r);
    let du = mk_descr(Type::INT32, ConvertedType::UINT_32, None, -1, -1, -1);
    let i: i32 = kani::any();
    assert!(!is_nan(du.get_basic_info(), &i));
    let l: i64 = kani::any();
    assert!(!is_nan(d64.get_basic_info(), &l));
    std::mem::forget(d32); std::mem::forget(d64); std::mem::forget(du);
}

/// A FIXED_LEN_BYTE_ARRAY value with symbolic content. The backing `bytes::Bytes` is built with `Bytes::from_static` over a
/// leaked copy, so that the clone/drop glue that update_min/update_max run on the OLD bound (`*min = val.clone()`) goes
/// through the constant STATIC vtable instead of the pointer-tagged promotable vtable of `Bytes::from(Vec)` (forget rule:
/// that drop glue is what makes CBMC run out of memory). The code under contract only sees `as_bytes()` and `clone()`.
fn flba(v: &[u8]) -> FixedLenByteArray {
    let leaked: &'static [u8] = Box::leak(v.to_vec().into_boxed_slice());
    FixedLenByteArray::from(ByteArray::from(Bytes::from_static(leaked)))
}
fn f16_descr() -> ColumnDescriptor { mk_descr(Type::FIXED_LEN_BYTE_ARRAY, ConvertedType::NONE, Some(LogicalType::Float16), 2, -1, -1) }

// Contract (C07): for a FIXED_LEN_BYTE_ARRAY(2) column annotated Float16 (sort order TOTAL_ORDER as resolved by
// the real type builder), is_nan(v) <=> the little-endian 16-bit pattern is an IEEE NaN; for a plain
// FIXED_LEN_BYTE_ARRAY(2) column (no Float16 annotation) is_nan is false for every pattern.
// @unit name=is_nan_f16 props=C07 kind=complete fns=is_nan timeout=300
#[kani::proof]
#[kani::stub(alloc::fmt::format, stub_format)]
fn is_nan_f16() {
    let d = f16_descr();
    assert!(matches!(d.sort_order(), SortOrder::TOTAL_ORDER));
    let x: [u8; 2] = kani::any();
    let v = flba(&x);
    let r = is_nan(d.get_basic_info(), &v);
    assert!(r == ieee_nan16(u16::from_le_bytes(x)));
    kani::cover!(r); kani::cover!(!r);
    let plain = mk_descr(Type::FIXED_LEN_BYTE_ARRAY, ConvertedType::NONE, None, 2, -1, -1);
    assert!(!is_nan(plain.get_basic_info(), &v));
    std::mem::forget(v); std::mem::forget(d); std::mem::forget(plain);
}

// Contract (C07): compare_greater::<i32> is the strict order of the column's declared sort order:
// signed (no annotation, INT_32, Date) -> a > b as i32; unsigned (converted UINT_8/16/32 or logical
// Integer{32,unsigned}) -> a > b as u32. compare_greater_unsigned_int::<i32> is the u32 order.
// @unit name=compare_greater_i32 props=C07 kind=complete fns=compare_greater,compare_greater_unsigned_int timeout=300
#[kani::proof]
#[kani::stub(alloc::fmt::format, stub_format)]
fn compare_greater_i32() {
    let a: i32 = kani::any(); let b: i32 = kani::any();
    let s1 = mk_descr(Type::INT32, ConvertedType::NONE, None, -1, -1, -1);
    let s2 = mk_descr(Type::INT32, ConvertedType::INT_32, None, -1, -1, -1);
    let s3 = mk_descr(Type::INT32, ConvertedType::NONE, Some(LogicalType::Date), -1, -1, -1);
    assert!(compare_greater(s1.get_basic_info(), &a, &b) == (a > b));
    assert!(compare_greater(s2.get_basic_info(), &a, &b) == (a > b));
    assert!(compare_greater(s3.get_basic_info(), &a, &b) == (a > b));
    let u1 = mk_descr(Type::INT32, ConvertedType::UINT_32, None, -1, -1, -1);
    let u2 = mk_descr(Type::INT32, ConvertedType::UINT_8, None, -1, -1, -1);
    let u3 = mk_descr(Type::INT32, ConvertedType::NONE, Some(LogicalType::integer(32, false)), -1, -1, -1);
    let spec_u = (a as u32) > (b as u32);
    assert!(compare_greater(u1.get_basic_info(), &a, &b) == spec_u);
    assert!(compare_greater(u2.get_basic_info(), &a, &b) == spec_u);
    assert!(compare_greater(u3.get_basic_info(), &a, &b) == spec_u);
    assert!(compare_greater_unsigned_int(&a, &b) == spec_u);
    kani::cover!(a < 0 && b > 0 && spec_u);      // the two orders disagree
    kani::cover!(a > b); kani::cover!(a == b);
    for d in [s1, s2, s3, u1, u2, u3] { std::mem::forget(d); }
}

// Contract (C07): compare_greater::<i64>: signed order without annotation / INT_64 / Timestamp; u64 order for
// UINT_64 and logical Integer{64,unsigned}; compare_greater_unsigned_int::<i64> is the u64 order.
// @unit name=compare_greater_i64 props=C07 kind=complete fns=compare_greater,compare_greater_unsigned_int timeout=300
#[kani::proof]
#[kani::stub(alloc::fmt::format, stub_format)]
fn compare_greater_i64() {
    let a: i64 = kani::any(); let b: i64 = kani::any();
    let s1 = mk_descr(Type::INT64, ConvertedType::NONE, None, -1, -1, -1);
    let s2 = mk_descr(Type::INT64, ConvertedType::INT_64, None, -1, -1, -1);
    let s3 = mk_descr(Type::INT64, ConvertedType::TIMESTAMP_MICROS, None, -1, -1, -1);
    assert!(compare_greater(s1.get_basic_info(), &a, &b) == (a > b));
    assert!(compare_greater(s2.get_basic_info(), &a, &b) == (a > b));
    assert!(compare_greater(s3.get_basic_info(), &a, &b) == (a > b));
    let u1 = mk_descr(Type::INT64, ConvertedType::UINT_64, None, -1, -1, -1);
    let u2 = mk_descr(Type::INT64, ConvertedType::NONE, Some(LogicalType::integer(64, false)), -1, -1, -1);
    let spec_u = (a as u64) > (b as u64);
    assert!(compare_greater(u1.get_basic_info(), &a, &b) == spec_u);
    assert!(compare_greater(u2.get_basic_info(), &a, &b) == spec_u);
    assert!(compare_greater_unsigned_int(&a, &b) == spec_u);
    kani::cover!(a < 0 && b > 0 && spec_u);
    kani::cover!(a > b); kani::cover!(a == b);
    for d in [s1, s2, s3, u1, u2] { std::mem::forget(d); }
}

// Contract (C07): compare_greater::<f32>/<f64> is IEEE-754 totalOrder on the bit patterns (all patterns,
// NaN payloads and signed zeros included). (The BOOLEAN instance `a > b` on bool is not checkable: Kani 0.68
// mis-models `bool: PartialOrd` -- `(p > q) == (p && !q)` fails on two symbolic bools without any arrow code.)
// @unit name=compare_greater_float props=C07 kind=complete fns=compare_greater timeout=300
#[kani::proof]
#[kani::stub(alloc::fmt::format, stub_format)]
fn compare_greater_float() {
    let d32 = mk_descr(Type::FLOAT, ConvertedType::NONE, None, -1, -1, -1);
    let (a, b): (u32, u32) = (kani::any(), kani::any());
    let r = compare_greater(d32.get_basic_info(), &f32::from_bits(a), &f32::from_bits(b));
    assert!(r == (key32(a) > key32(b)));
    kani::cover!(r && ieee_nan32(a)); kani::cover!(!r && a != b);
    let d64 = mk_descr(Type::DOUBLE, ConvertedType::NONE, None, -1, -1, -1);
    let (x, y): (u64, u64) = (kani::any(), kani::any());
    let r = compare_greater(d64.get_basic_info(), &f64::from_bits(x), &f64::from_bits(y));
    assert!(r == (key64(x) > key64(y)));
    kani::cover!(r && x == 0 && y == 1u64 << 63);    // +0 > -0
    for d in [d32, d64] { std::mem::forget(d); }
}

// Contract (C07): for a Float16 column (FIXED_LEN_BYTE_ARRAY(2), logical Float16) compare_greater is totalOrder
// on the little-endian 16-bit patterns (NOT the unsigned byte order of plain FIXED_LEN_BYTE_ARRAY).
// @unit name=compare_greater_flba_f16 props=C07 kind=complete fns=compare_greater,compare_greater_f16 timeout=300
#[kani::proof]
#[kani::stub(alloc::fmt::format, stub_format)]
fn compare_greater_flba_f16() {
    let d = f16_descr();
    let (a, b): ([u8; 2], [u8; 2]) = (kani::any(), kani::any());
    let (va, vb) = (flba(&a), flba(&b));
    let r = compare_greater(d.get_basic_info(), &va, &vb);
    assert!(r == (key16(u16::from_le_bytes(a)) > key16(u16::from_le_bytes(b))));
    kani::cover!(r); kani::cover!(!r && a != b);
    kani::cover!(r && a < b);                     // differs from the byte order
    std::mem::forget(va); std::mem::forget(vb); std::mem::forget(d);
}

/// unsigned bytewise lexicographic "a > b" (first-difference scan, shorter prefix sorts first)
fn lex_gt(a: &[u8], b: &[u8]) -> bool {
    let mut i = 0;
    while i < a.len() && i < b.len() {
        if a[i] != b[i] { return a[i] > b[i]; }
        i += 1;
    }
    a.len() > b.len()
}

// Contract (C07): for BYTE_ARRAY columns without a decimal annotation (plain, UTF8 converted type, String logical
// type: sort order UNSIGNED) compare_greater is the unsigned bytewise lexicographic order (a proper prefix sorts
// first); same for plain FIXED_LEN_BYTE_ARRAY. Lengths are concrete per harness (allocation sizes), contents symbolic.
macro_rules! cmp_bytes {
    ($name:ident, $la:expr, $lb:expr) => {
        #[kani::proof]
        #[kani::unwind(6)]
        #[kani::stub(alloc::fmt::format, stub_format)]
        fn $name() {
            let a: [u8; $la] = kani::any(); let b: [u8; $lb] = kani::any();
            let (va, vb) = (ByteArray::from(a.to_vec()), ByteArray::from(b.to_vec()));
            let spec = lex_gt(&a, &b);
            let d1 = mk_descr(Type::BYTE_ARRAY, ConvertedType::NONE, None, -1, -1, -1);
            let d2 = mk_descr(Type::BYTE_ARRAY, ConvertedType::UTF8, None, -1, -1, -1);
            let d3 = mk_descr(Type::BYTE_ARRAY, ConvertedType::NONE, Some(LogicalType::String), -1, -1, -1);
            assert!(compare_greater(d1.get_basic_info(), &va, &vb) == spec);
            assert!(compare_greater(d2.get_basic_info(), &va, &vb) == spec);
            assert!(compare_greater(d3.get_basic_info(), &va, &vb) == spec);
            let (fa, fb) = (FixedLenByteArray::from(va), FixedLenByteArray::from(vb));
            if $la == $lb {
                let d4 = mk_descr(Type::FIXED_LEN_BYTE_ARRAY, ConvertedType::NONE, None, $la, -1, -1);
                assert!(compare_greater(d4.get_basic_info(), &fa, &fb) == spec);
                std::mem::forget(d4);
            }
            kani::cover!($la == 0 || $lb == 0 || spec);
            kani::cover!($la == 0 || $lb == 0 || !spec);
            kani::cover!($la == $lb || (spec == ($la > $lb)) || ($la > 0 && $lb > 0));   // an empty value sorts lowest
            std::mem::forget(fa); std::mem::forget(fb);
            for d in [d1, d2, d3] { std::mem::forget(d); }
        }
    };
}
// @unit name=compare_greater_bytes_3_3 props=C07 kind=bounded bound=lengths_3_and_3 fns=compare_greater timeout=300
cmp_bytes!(compare_greater_bytes_3_3, 3, 3);
// @unit name=compare_greater_bytes_2_3 props=C07 kind=bounded bound=lengths_2_and_3 fns=compare_greater timeout=300
cmp_bytes!(compare_greater_bytes_2_3, 2, 3);
// @unit name=compare_greater_bytes_3_1 props=C07 kind=bounded bound=lengths_3_and_1 fns=compare_greater timeout=300 tier=thorough
cmp_bytes!(compare_greater_bytes_3_1, 3, 1);
// @unit name=compare_greater_bytes_0_2 props=C07 kind=bounded bound=lengths_0_and_2 fns=compare_greater timeout=300
cmp_bytes!(compare_greater_bytes_0_2, 0, 2);

// Contract (C07): for BYTE_ARRAY columns annotated DECIMAL (converted type, or logical Decimal) compare_greater is the
// order of the big-endian two's-complement integers (sext), also for values of different lengths.
macro_rules! cmp_decimal_bytes {
    ($name:ident, $la:expr, $lb:expr) => {
        #[kani::proof]
        #[kani::unwind(6)]
        #[kani::stub(alloc::fmt::format, stub_format)]
        fn $name() {
            let a: [u8; $la] = kani::any(); let b: [u8; $lb] = kani::any();
            let (va, vb) = (ByteArray::from(a.to_vec()), ByteArray::from(b.to_vec()));
            let spec = sext(&a) > sext(&b);
            let d1 = mk_descr(Type::BYTE_ARRAY, ConvertedType::DECIMAL, None, -1, 5, 2);
            let d2 = mk_descr(Type::BYTE_ARRAY, ConvertedType::NONE, Some(LogicalType::decimal(2, 5)), -1, 5, 2);
            assert!(compare_greater(d1.get_basic_info(), &va, &vb) == spec);
            assert!(compare_greater(d2.get_basic_info(), &va, &vb) == spec);
            kani::cover!(spec && lex_gt(&b, &a));     // differs from the unsigned byte order
            kani::cover!(!spec);
            std::mem::forget(va); std::mem::forget(vb);
            for d in [d1, d2] { std::mem::forget(d); }
        }
    };
}
// @unit name=compare_greater_decimal_bytes_2_3 props=C07 kind=bounded bound=lengths_2_and_3 fns=compare_greater,compare_greater_byte_array_decimals timeout=300
cmp_decimal_bytes!(compare_greater_decimal_bytes_2_3, 2, 3);
// @unit name=compare_greater_decimal_bytes_3_3 props=C07 kind=bounded bound=lengths_3_and_3 fns=compare_greater,compare_greater_byte_array_decimals timeout=300 tier=thorough
cmp_decimal_bytes!(compare_greater_decimal_bytes_3_3, 3, 3);

// Contract (C07): compare_greater::<Int96> (column order INT96_TIMESTAMP_ORDER) is the chronological order of the
// legacy timestamp layout: Julian day = third little-endian u32 as i32, nanoseconds-of-day = first two words as a
// little-endian i64; (day, nanos) compared lexicographically.
// @unit name=compare_greater_int96 props=C07 kind=complete fns=compare_greater timeout=300
#[kani::proof]
#[kani::stub(alloc::fmt::format, stub_format)]
fn compare_greater_int96() {
    let d = mk_descr(Type::INT96, ConvertedType::NONE, None, -1, -1, -1);
    let (a, b): ([u32; 3], [u32; 3]) = (kani::any(), kani::any());
    let (mut va, mut vb) = (Int96::new(), Int96::new());
    va.set_data(a[0], a[1], a[2]); vb.set_data(b[0], b[1], b[2]);
    let key = |x: [u32; 3]| ((x[2] as i32) as i128) * (1i128 << 64) + ((((x[1] as u64) << 32) | x[0] as u64) as i64) as i128;
    assert!(compare_greater(d.get_basic_info(), &va, &vb) == (key(a) > key(b)));
    kani::cover!(key(a) > key(b) && a[2] == b[2]);
    kani::cover!(key(a) < key(b));
    std::mem::forget(d);
}

// ---------------------------------------------------------------------------------------------
// update_min / update_max / update_stat
// ---------------------------------------------------------------------------------------------

// Contract (C07): update_stat(val, cur, f) sets *cur = val exactly when f(cur) holds, else leaves it (frame).
// @unit name=update_stat_contract props=C07 kind=complete fns=update_stat timeout=120
#[kani::proof]
fn update_stat_contract() {
    let val: i64 = kani::any(); let cur0: i64 = kani::any(); let flag: bool = kani::any();
    let seen = std::cell::Cell::new(0i64);
    let mut cur = cur0;
    update_stat(&val, &mut cur, |c: &i64| { seen.set(*c); flag });
    assert!(seen.get() == cur0);                       // the predicate is asked about the current bound
    assert!(cur == if flag { val } else { cur0 });
    kani::cover!(flag && val != cur0); kani::cover!(!flag);
}

// Contract (C07, f32 column): after update_min(d, v, &mut min) / update_max:
//  - None -> Some(v) bit-exactly (first value adopted, NaN included);
//  - the new bound is bit-identical to the old bound or to v (attained);
//  - if the old bound is non-NaN, a NaN v is skipped (bound unchanged);
//  - if the old bound is NaN and v is not, the bound becomes v (NaN never survives a non-NaN value);
//  - otherwise new min = the totalOrder-smaller (max: larger) of the two, the old one on ties:
//    hence new min <= old min and new min <= v under totalOrder whenever v is not NaN.
// @unit name=update_min_max_f32 props=C07 kind=complete fns=update_min,update_max,update_stat,is_nan,compare_greater timeout=300
#[kani::proof]
#[kani::stub(alloc::fmt::format, stub_format)]
fn update_min_max_f32() {
    let d = mk_descr(Type::FLOAT, ConvertedType::NONE, None, -1, -1, -1);
    let (c, v): (u32, u32) = (kani::any(), kani::any());
    let val = f32::from_bits(v);
    let mut m: Option<f32> = None;
    update_min(&d, &val, &mut m);
    assert!(m.map(f32::to_bits) == Some(v));
    let mut m: Option<f32> = None;
    update_max(&d, &val, &mut m);
    assert!(m.map(f32::to_bits) == Some(v));

    let mut mn = Some(f32::from_bits(c));
    update_min(&d, &val, &mut mn);
    let n = mn.unwrap().to_bits();
    let mut mx = Some(f32::from_bits(c));
    update_max(&d, &val, &mut mx);
    let x = mx.unwrap().to_bits();
    let (cn, vn) = (ieee_nan32(c), ieee_nan32(v));
    let spec_min = if !cn && vn { c } else if cn && !vn { v } else if key32(v) < key32(c) { v } else { c };
    let spec_max = if !cn && vn { c } else if cn && !vn { v } else if key32(v) > key32(c) { v } else { c };
    assert!(n == spec_min && x == spec_max);
    // consequences stated by the property: bounds bound every non-NaN value, NaN only if nothing else was seen
    if !vn { assert!(key32(n) <= key32(v) && key32(x) >= key32(v) && !ieee_nan32(n) && !ieee_nan32(x)); }
    if !cn { assert!(key32(n) <= key32(c) && key32(x) >= key32(c)); }
    kani::cover!(!cn && vn); kani::cover!(cn && !vn); kani::cover!(cn && vn && n == v);
    kani::cover!(!cn && !vn && n == v && v != c); kani::cover!(!cn && !vn && x == v && v != c);
    kani::cover!(c == 0 && v == 1 << 31 && n == v && x == c);      // -0 < +0
    std::mem::forget(d);
}

// Contract (C07, f64 column): same contract as update_min_max_f32 on 64-bit patterns.
// @unit name=update_min_max_f64 props=C07 kind=complete fns=update_min,update_max,update_stat,is_nan,compare_greater timeout=300
#[kani::proof]
#[kani::stub(alloc::fmt::format, stub_format)]
fn update_min_max_f64() {
    let d = mk_descr(Type::DOUBLE, ConvertedType::NONE, None, -1, -1, -1);
    let (c, v): (u64, u64) = (kani::any(), kani::any());
    let val = f64::from_bits(v);
    let mut m: Option<f64> = None;
    update_min(&d, &val, &mut m);
    assert!(m.map(f64::to_bits) == Some(v));
    let mut mn = Some(f64::from_bits(c));
    update_min(&d, &val, &mut mn);
    let n = mn.unwrap().to_bits();
    let mut mx = Some(f64::from_bits(c));
    update_max(&d, &val, &mut mx);
    let x = mx.unwrap().to_bits();
    let (cn, vn) = (ieee_nan64(c), ieee_nan64(v));
    let spec_min = if !cn && vn { c } else if cn && !vn { v } else if key64(v) < key64(c) { v } else { c };
    let spec_max = if !cn && vn { c } else if cn && !vn { v } else if key64(v) > key64(c) { v } else { c };
    assert!(n == spec_min && x == spec_max);
    kani::cover!(!cn && vn); kani::cover!(cn && !vn); kani::cover!(!cn && !vn && n == v && v != c);
    std::mem::forget(d);
}

// Contract (C07, INT32 columns): update_min/update_max keep the minimum / maximum under the DECLARED order:
// signed for a plain INT32 column, unsigned (as u32) for a UINT_32 column; None -> Some(v).
// @unit name=update_min_max_i32 props=C07 kind=complete fns=update_min,update_max,update_stat,compare_greater timeout=300
#[kani::proof]
#[kani::stub(alloc::fmt::format, stub_format)]
fn update_min_max_i32() {
    let ds = mk_descr(Type::INT32, ConvertedType::NONE, None, -1, -1, -1);
    let du = mk_descr(Type::INT32, ConvertedType::UINT_32, None, -1, -1, -1);
    let (c, v): (i32, i32) = (kani::any(), kani::any());
    let mut m = None; update_min(&ds, &v, &mut m); assert!(m == Some(v));
    let mut m = None; update_max(&du, &v, &mut m); assert!(m == Some(v));
    let mut m = Some(c); update_min(&ds, &v, &mut m); assert!(m == Some(if v < c { v } else { c }));
    let mut m = Some(c); update_max(&ds, &v, &mut m); assert!(m == Some(if v > c { v } else { c }));
    let mut m = Some(c); update_min(&du, &v, &mut m); assert!(m == Some(if (v as u32) < (c as u32) { v } else { c }));
    let mut m = Some(c); update_max(&du, &v, &mut m); assert!(m == Some(if (v as u32) > (c as u32) { v } else { c }));
    kani::cover!(v < 0 && c > 0); kani::cover!(v == c);
    std::mem::forget(ds); std::mem::forget(du);
}

// Contract (C07, Float16 column = FIXED_LEN_BYTE_ARRAY(2) + Float16): same NaN/totalOrder contract as
// update_min_max_f32 on the little-endian 16-bit patterns.
// @unit name=update_min_max_f16 props=C07 kind=complete fns=update_min,update_max,update_stat,is_nan,compare_greater,compare_greater_f16 timeout=400 tier=thorough
#[kani::proof]
#[kani::stub(alloc::fmt::format, stub_format)]
fn update_min_max_f16() {
    let d = f16_descr();
    let (cb, vb): ([u8; 2], [u8; 2]) = (kani::any(), kani::any());
    let (c, v) = (u16::from_le_bytes(cb), u16::from_le_bytes(vb));
    let val = flba(&vb);
    let mut first: Option<FixedLenByteArray> = None;
    update_min(&d, &val, &mut first);
    assert!(first.as_ref().unwrap().data() == &vb[..]);
    let mut mn = Some(flba(&cb));
    update_min(&d, &val, &mut mn);
    let mut mx = Some(flba(&cb));
    update_max(&d, &val, &mut mx);
    let n = u16::from_le_bytes(mn.as_ref().unwrap().data().try_into().unwrap());
    let x = u16::from_le_bytes(mx.as_ref().unwrap().data().try_into().unwrap());
    let (cn, vn) = (ieee_nan16(c), ieee_nan16(v));
    let spec_min = if !cn && vn { c } else if cn && !vn { v } else if key16(v) < key16(c) { v } else { c };
    let spec_max = if !cn && vn { c } else if cn && !vn { v } else if key16(v) > key16(c) { v } else { c };
    assert!(n == spec_min && x == spec_max);
    kani::cover!(!cn && vn); kani::cover!(cn && !vn); kani::cover!(!cn && !vn && n == v && v != c);
    kani::cover!(!cn && !vn && x == v && v != c);
    std::mem::forget(val); std::mem::forget(first); std::mem::forget(mn); std::mem::forget(mx); std::mem::forget(d);
}

// ---------------------------------------------------------------------------------------------
// decimals up to 16 bytes (every Decimal128)
// ---------------------------------------------------------------------------------------------

/// sext for up to 16 bytes, result in i128 (exact: a 16-byte two's-complement integer is an i128)
fn sext16(b: &[u8]) -> i128 {
    let mut v: i128 = if b[0] & 0x80 != 0 { -1 } else { 0 };
    let mut i = 0;
    while i < b.len() { v = (v << 8) | b[i] as i128; i += 1; }
    v
}

// Contract (C07): as decimals_compare_len4, for byte strings of 1..=16 bytes each (covers every Decimal128 stored
// as BYTE_ARRAY / FIXED_LEN_BYTE_ARRAY): compare_greater_byte_array_decimals(a,b) <=> sext(a) > sext(b).
// @unit name=decimals_compare_len16 props=C07 kind=bounded bound=each_value_1..=16_bytes fns=compare_greater_byte_array_decimals tier=thorough mem=4 timeout=900
#[kani::proof]
#[kani::unwind(18)]
fn decimals_compare_len16() {
    let a: [u8; 16] = kani::any(); let b: [u8; 16] = kani::any();
    let la: usize = kani::any(); let lb: usize = kani::any();
    kani::assume(la >= 1 && la <= 16 && lb >= 1 && lb <= 16);
    let r = compare_greater_byte_array_decimals(&a[..la], &b[..lb]);
    assert!(r == (sext16(&a[..la]) > sext16(&b[..lb])));
    kani::cover!(la == 16 && lb == 9 && r);
    kani::cover!(la == 3 && lb == 16 && !r && a[0] == 0xFF && b[0] == 0xFF);
}

// Contract (C07): empty operands (degenerate BYTE_ARRAY decimals): a > b iff a is non-empty and b is empty.
// @unit name=decimals_compare_empty props=C07 kind=bounded bound=other_value_<=4_bytes fns=compare_greater_byte_array_decimals timeout=120
#[kani::proof]
#[kani::unwind(6)]
fn decimals_compare_empty() {
    let a: [u8; 4] = kani::any(); let la: usize = kani::any(); kani::assume(la <= 4);
    assert!(compare_greater_byte_array_decimals(&a[..la], &[]) == (la > 0));
    assert!(!compare_greater_byte_array_decimals(&[], &a[..la]));
    kani::cover!(la == 0); kani::cover!(la == 4);
}

// ---------------------------------------------------------------------------------------------
// increment (binary upper bound)
// ---------------------------------------------------------------------------------------------

/// big-endian value of <= 12 bytes
fn be_val(b: &[u8]) -> u128 { let mut v = 0u128; let mut i = 0; while i < b.len() { v = (v << 8) | b[i] as u128; i += 1; } v }

// Contract (C07): increment(d) for a byte string d (the truncated max statistic):
//   None  <=> every byte of d is 0xFF (in particular for the empty string): no string of that length is greater;
//   Some(r) => len(r) = len(d) and r = d + 1 as big-endian integers, i.e. r is the LEAST string of that length that is
//   bytewise-lexicographically greater than d (no string of that length lies strictly between); consequently
//   r > d and r > every extension of d (the value the statistic was truncated from).
macro_rules! increment_unit {
    ($name:ident, $n:expr, $unw:expr) => {
        #[kani::proof]
        #[kani::unwind($unw)]
        fn $name() {
            let d: [u8; $n] = kani::any();
            let n: usize = kani::any(); kani::assume(n <= $n);
            let mut all_ff = true; let mut i = 0;
            while i < n { if d[i] != 0xFF { all_ff = false; } i += 1; }
            match increment(d[..n].to_vec()) {
                Some(r) => {
                    assert!(!all_ff);
                    assert!(r.len() == n);
                    assert!(be_val(&r) == be_val(&d[..n]) + 1);
                    assert!(lex_gt(&r, &d[..n]));
                    kani::cover!(n == $n && d[$n - 1] == 0xFF && d[$n - 2] == 0xFF);   // carry over two bytes
                    kani::cover!(n == 1);
                }
                None => { assert!(all_ff); kani::cover!(n == 0); kani::cover!(n == $n); }
            }
        }
    };
}
// @unit name=increment_len6 props=C07 kind=bounded bound=len<=6 fns=increment timeout=300
increment_unit!(increment_len6, 6, 8);
// @unit name=increment_len12 props=C07 kind=bounded bound=len<=12 fns=increment tier=thorough timeout=900
increment_unit!(increment_len12, 12, 14);

// Contract (C07): the non-UTF-8 branch of truncate_max_value: for data longer than l, increment(data[..l]) = Some(r)
// implies r > data bytewise (an upper bound of the untruncated value, not only of its prefix), and r has l bytes.
// @unit name=increment_bounds_extension props=C07 kind=bounded bound=data<=6_bytes fns=increment timeout=300
#[kani::proof]
#[kani::unwind(8)]
fn increment_bounds_extension() {
    let d: [u8; 6] = kani::any();
    let n: usize = kani::any(); let l: usize = kani::any();
    kani::assume(n <= 6 && l < n);
    if let Some(r) = increment(d[..l].to_vec()) {
        assert!(r.len() == l);
        assert!(lex_gt(&r, &d[..n]));
        kani::cover!(l == 2 && n == 6);
    }
}

// ---------------------------------------------------------------------------------------------
// UTF-8 aware truncation of string statistics
// ---------------------------------------------------------------------------------------------

/// UTF-8 width of a scalar value (RFC 3629)
fn w8(u: u32) -> usize { if u < 0x80 { 1 } else if u < 0x800 { 2 } else if u < 0x1_0000 { 3 } else { 4 } }
fn is_scalar(u: u32) -> bool { u <= 0x10_FFFF && !(u >= 0xD800 && u <= 0xDFFF) }
/// "the character can be incremented without changing its encoded width" (doc comment of increment_utf8)
fn incrementable(c: char) -> bool { let u = c as u32 + 1; is_scalar(u) && w8(u) == w8(c as u32) }

/// spec-side loops over <= 12 bytes / <= 3 characters are written unrolled so that the harness-wide unwind bound
/// only has to cover the loops of the code under test (one iteration per character).
macro_rules! unroll12 { ($i:ident, $body:block) => {
    { let $i = 0usize; $body } { let $i = 1usize; $body } { let $i = 2usize; $body } { let $i = 3usize; $body }
    { let $i = 4usize; $body } { let $i = 5usize; $body } { let $i = 6usize; $body } { let $i = 7usize; $body }
    { let $i = 8usize; $body } { let $i = 9usize; $body } { let $i = 10usize; $body } { let $i = 11usize; $body }
} }
macro_rules! unroll3 { ($i:ident, $body:block) => { { let $i = 0usize; $body } { let $i = 1usize; $body } { let $i = 2usize; $body } } }
/// lex_gt for strings of <= 12 bytes, unrolled
fn lex_gt12(a: &[u8], b: &[u8]) -> bool {
    unroll12!(i, { if i < a.len() && i < b.len() && a[i] != b[i] { return a[i] > b[i]; } });
    a.len() > b.len()
}

/// A valid UTF-8 string CONSTRUCTED from n <= K <= 3 symbolic scalar values (1..4-byte encodings, both sides of the
/// surrogate gap and U+10FFFF are all reachable): chars, n, bytes, byte length, start offset of each char.
struct SymStr<const K: usize, const B: usize> { ch: [char; K], n: usize, buf: [u8; B], len: usize, off: [usize; K] }
fn sym_str<const K: usize, const B: usize>() -> SymStr<K, B> {
    let mut s = SymStr { ch: ['a'; K], n: kani::any(), buf: [0u8; B], len: 0, off: [0; K] };
    kani::assume(s.n <= K);
    unroll3!(i, { if i < K && i < s.n {
        let c: char = kani::any();
        s.ch[i] = c; s.off[i] = s.len;
        s.len += c.encode_utf8(&mut s.buf[s.len..]).len();
    } });
    s
}
impl<const K: usize, const B: usize> SymStr<K, B> {
    fn as_str(&self) -> &str { unsafe { std::str::from_utf8_unchecked(&self.buf[..self.len]) } } // valid by construction
    /// number of whole leading characters that fit in the first `limit` bytes, and their byte length
    fn fit(&self, limit: usize) -> (usize, usize) {
        let (mut k, mut bytes) = (0, 0);
        unroll3!(i, { if i < K && i < self.n && self.off[i] + w8(self.ch[i] as u32) <= limit { k = i + 1; bytes = self.off[i] + w8(self.ch[i] as u32); } });
        (k, bytes)
    }
    /// expected result of incrementing the string made of the first k characters: (prefix bytes kept, new last char)
    fn spec_increment(&self, k: usize) -> Option<(usize, char)> {
        let mut res = None;
        unroll3!(i, { if i < K && i < k && incrementable(self.ch[i]) { res = Some((self.off[i], char::from_u32(self.ch[i] as u32 + 1).unwrap())); } });
        res
    }
    /// r == buf[..keep] ++ utf8(c)
    fn is_prefix_plus(&self, r: &[u8], keep: usize, c: char) -> bool {
        let mut e = [0u8; 4]; let el = c.encode_utf8(&mut e).len();
        if r.len() != keep + el { return false; }
        unroll12!(i, { if i < r.len() && r[i] != (if i < keep { self.buf[i] } else { e[i - keep] }) { return false; } });
        true
    }
}

// Contract (C07): increment_utf8(s) for a valid UTF-8 string s = c0..c(n-1):
//   let j = the LAST index whose character can be incremented to the next scalar value of the same encoded width
//   (c+1 is not a surrogate, <= U+10FFFF, same width). None <=> no such j. Some(r) <=> r = utf8(c0..c(j-1), cj + 1).
//   Hence r is valid UTF-8, len(r) <= len(s), and r > s bytewise (an upper bound for every string with prefix s).
macro_rules! increment_utf8_unit {
    ($name:ident, $k:expr, $b:expr, $unw:expr) => {
        #[kani::proof]
        #[kani::unwind($unw)]
        fn $name() {
            let s = sym_str::<$k, $b>();
            let r = increment_utf8(s.as_str());
            match (s.spec_increment(s.n), r) {
                (None, None) => { kani::cover!(s.n == 1 && s.ch[0] == '\u{10FFFF}'); kani::cover!(s.n == $k && s.ch[0] == '\u{7f}'); kani::cover!(s.n == 0);
                                  kani::cover!(s.n == $k && s.ch[$k - 1] == '\u{D7FF}'); }               // just below the surrogate gap
                (Some((keep, c)), Some(r)) => {
                    assert!(s.is_prefix_plus(&r, keep, c));
                    assert!(r.len() <= s.len);
                    assert!(lex_gt12(&r, &s.buf[..s.len]));
                    kani::cover!($k == 1 || (s.n == $k && s.ch[$k - 1] == '\u{D7FF}' && r.len() < s.len)); // surrogate gap: last char dropped
                    kani::cover!(s.n == $k && s.ch[0] == '\u{E000}');
                    kani::cover!(s.len == $b);                                      // all 4-byte characters
                }
                _ => assert!(false),
            }
        }
    };
}
// @unit name=increment_utf8_1char props=C07 kind=bounded bound=<=1_scalar_value fns=increment_utf8 timeout=600
increment_utf8_unit!(increment_utf8_1char, 1, 4, 3);
// @unit name=increment_utf8_2chars props=C07 kind=bounded bound=<=2_scalar_values_(<=8_bytes) fns=increment_utf8 tier=thorough mem=6 timeout=1800
increment_utf8_unit!(increment_utf8_2chars, 2, 8, 4);

// Contract (C07): truncate_utf8(s, l) under the caller's precondition len(s) > l:
//   Some(r) <=> the first character fits in l bytes (and l >= 1); then r = the LONGEST prefix of s made of whole
//   characters with 1 <= len(r) <= l (so r is valid UTF-8, a prefix of s, hence r <= s bytewise: a lower bound).
//   None <=> l = 0 or the first character is wider than l.
macro_rules! truncate_utf8_unit {
    ($name:ident, $k:expr, $b:expr, $unw:expr) => {
        #[kani::proof]
        #[kani::unwind($unw)]
        fn $name() {
            let s = sym_str::<$k, $b>();
            let l: usize = kani::any(); kani::assume(l < s.len);
            let (k, bytes) = s.fit(l);
            match truncate_utf8(s.as_str(), l) {
                None => { assert!(k == 0); kani::cover!(l == 3); kani::cover!(l == 0); }
                Some(r) => {
                    assert!(k >= 1 && r.len() == bytes && r.len() <= l && r.len() >= 1);
                    let whole: &[u8] = &s.buf; unroll12!(i, { if i < r.len() { assert!(r[i] == whole[i]); } });
                    assert!(!lex_gt12(&r, &s.buf[..s.len]));
                    kani::cover!(r.len() < l); kani::cover!(r.len() == l && k == $k - 1);
                }
            }
        }
    };
}
// @unit name=truncate_utf8_2chars props=C07 kind=bounded bound=<=2_scalar_values fns=truncate_utf8 timeout=600
truncate_utf8_unit!(truncate_utf8_2chars, 2, 8, 10);
// @unit name=truncate_utf8_3chars props=C07 kind=bounded bound=<=3_scalar_values fns=truncate_utf8 tier=thorough mem=6 timeout=1800
truncate_utf8_unit!(truncate_utf8_3chars, 3, 12, 14);

// Contract (C07): truncate_and_increment_utf8(s, l) under the caller's precondition len(s) > l:
//   let p = the longest prefix of s made of whole characters with len(p) <= l. The result is increment_utf8's contract
//   applied to p: None <=> p has no incrementable character (in particular p empty);
//   Some(r) <=> r = utf8(p[..j], p[j] + 1) for the last incrementable j. Hence r is valid UTF-8, len(r) <= l, and r > s
//   bytewise (an UPPER bound of the untruncated value).
macro_rules! truncate_incr_utf8_unit {
    ($name:ident, $k:expr, $b:expr, $unw:expr) => {
        #[kani::proof]
        #[kani::unwind($unw)]
        fn $name() {
            let s = sym_str::<$k, $b>();
            let l: usize = kani::any(); kani::assume(l < s.len);
            let (k, _) = s.fit(l);
            match (s.spec_increment(k), truncate_and_increment_utf8(s.as_str(), l)) {
                (None, None) => { kani::cover!(k == 0); kani::cover!(k == 1 && s.ch[0] == '\u{7ff}'); }
                (Some((keep, c)), Some(r)) => {
                    assert!(s.is_prefix_plus(&r, keep, c));
                    assert!(r.len() <= l);
                    assert!(lex_gt12(&r, &s.buf[..s.len]));
                    kani::cover!(r.len() == l); kani::cover!(r.len() + 3 == l);
                }
                _ => assert!(false),
            }
        }
    };
}
// @unit name=truncate_and_increment_utf8_2chars props=C07 kind=bounded bound=<=2_scalar_values fns=truncate_and_increment_utf8,increment_utf8 tier=thorough mem=6 timeout=1800
truncate_incr_utf8_unit!(truncate_and_increment_utf8_2chars, 2, 8, 6);
