// Kani contract harnesses for /repo/parquet/src/column/writer/mod.rs (child module: sees private items via super::)
