// Kani contract harnesses for /repo/parquet/src/column/writer/mod.rs (child module: sees private items via super::)
use super::*;
#[path = "/verif/kani/support/spec.rs"]
mod spec;
#[allow(unused_imports)]
use spec::*;

/// value of a big-endian two's-complement byte string of 1..=8 bytes (the DECIMAL BYTE_ARRAY layout)
fn sext(b: &[u8]) -> i128 {
    let mut v: i128 = if b[0] & 0x80 != 0 { -1 } else { 0 };
    let mut i = 0;
    while i < b.len() { v = (v << 8) | b[i] as i128; i += 1; }
    v
}

// Contract (C07): compare_greater_byte_array_decimals(a, b) <=> sext(a) > sext(b), where sext is the value
// of the big-endian two's-complement integer, for byte strings of DIFFERENT or equal lengths (min/max
// statistics of BYTE_ARRAY / FIXED_LEN_BYTE_ARRAY decimal columns must bound every value). Empty strings:
// a > b iff a is non-empty and b is empty (as coded: an empty value sorts lowest).
// Finding F1 (fixed in /repo by a `fix:` commit): before the fix `(&[0x00,0x05], &[0x07])` returned true.
// @unit name=decimals_compare_len4 props=C07 kind=bounded bound=each_value_1..=4_bytes fns=compare_greater_byte_array_decimals timeout=300
#[kani::proof]
#[kani::unwind(6)]
fn decimals_compare_len4() {
    let a: [u8; 4] = kani::any(); let b: [u8; 4] = kani::any();
    let la: usize = kani::any(); let lb: usize = kani::any();
    kani::assume(la >= 1 && la <= 4 && lb >= 1 && lb <= 4);
    let r = compare_greater_byte_array_decimals(&a[..la], &b[..lb]);
    assert!(r == (sext(&a[..la]) > sext(&b[..lb])));
    kani::cover!(la > lb && r);
    kani::cover!(la < lb && !r);
    kani::cover!(la != lb && a[0] == 0 && b[0] == 0);
    kani::cover!(la != lb && a[0] == 0xFF && b[0] == 0xFF);
}
