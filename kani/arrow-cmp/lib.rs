// Kani contract harnesses for /repo/arrow-cmp/src/lib.rs (child module: sees private items via super::)
