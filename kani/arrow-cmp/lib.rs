// Kani contract harnesses for /repo/arrow-cmp/src/lib.rs (child module: sees private items via super::)
use super::*;
use arrow_buffer::{BooleanBuffer, Buffer, ScalarBuffer};
#[path = "/verif/kani/support/spec.rs"]
mod spec;
use spec::*;

/// Specification of the slot order on optional values (SortOptions semantics, C10):
/// null vs null = Equal; null vs value = Less iff nulls_first (independent of `descending`);
/// value vs value = key order, reversed iff descending.
fn spec_cmp_opt<K: Ord>(a: Option<K>, b: Option<K>, nulls_first: bool, descending: bool) -> Ordering {
    match (a, b) {
        (None, None) => Ordering::Equal,
        (None, Some(_)) => if nulls_first { Ordering::Less } else { Ordering::Greater },
        (Some(_), None) => if nulls_first { Ordering::Greater } else { Ordering::Less },
        (Some(x), Some(y)) => if descending { y.cmp(&x) } else { x.cmp(&y) },
    }
}
fn rev(o: Ordering) -> Ordering {
    match o { Ordering::Less => Ordering::Greater, Ordering::Greater => Ordering::Less, Ordering::Equal => Ordering::Equal }
}
/// 2-slot validity buffer from a symbolic byte (bits 2.. are garbage beyond the length)
fn nulls2(v: u8) -> NullBuffer { NullBuffer::new(BooleanBuffer::new(Buffer::from(vec![v]), 0, 2)) }

// Contract (C10): child_opts(opts) is the option set under which an ASCENDING child ranking, reversed iff
// the parent is descending, reproduces the parent's slot order: for all optional values a, b
//   spec_cmp_opt(a, b, opts) == (if opts.descending { reverse } else { id })(spec_cmp_opt(a, b, child_opts(opts)))
// (in particular nulls stay where opts.nulls_first puts them), and the child is never descending.
// @unit name=child_opts_spec props=C10 kind=complete fns=child_opts
#[kani::proof]
fn child_opts_spec() {
    let opts = SortOptions { descending: kani::any(), nulls_first: kani::any() };
    let c = child_opts(opts);
    assert!(!c.descending);
    let a: Option<i8> = if kani::any() { Some(kani::any()) } else { None };
    let b: Option<i8> = if kani::any() { Some(kani::any()) } else { None };
    let parent = spec_cmp_opt(a, b, opts.nulls_first, opts.descending);
    let child = spec_cmp_opt(a, b, c.nulls_first, c.descending);
    assert!(parent == if opts.descending { rev(child) } else { child });
    kani::cover!(opts.descending && a.is_none() && b.is_some());
    kani::cover!(!opts.descending && a.is_some() && b.is_none());
    kani::cover!(opts.descending && a.is_some() && b.is_some() && parent == Ordering::Less);
}

// Contract (C10): compare_impl::<NULLS_FIRST, DESCENDING>(l_nulls, r_nulls, cmp) returns a comparator f with
//   f(i, j) == spec_cmp_opt(left slot i, right slot j) for every i, j < 2, where slot = None iff the
// corresponding validity bit is 0 (a side without null buffer has no nulls) and values are ordered by `cmp`
// (here: the integer order of two symbolic i32 columns, supplied by the harness), for each of the four
// option combinations and each of the four null-buffer presence combinations (16 instances; validity bits,
// values, indices symbolic). The boxed closure (owns NullBuffers) is forgotten.
fn cmp_impl<const NF: bool, const DESC: bool, const LN: bool, const RN: bool>() {
    let lv: [i32; 2] = [kani::any(), kani::any()];
    let rv: [i32; 2] = [kani::any(), kani::any()];
    let (lb, rb): (u8, u8) = (kani::any(), kani::any());
    let l = if LN { Some(nulls2(lb)) } else { None };
    let r = if RN { Some(nulls2(rb)) } else { None };
    let f = compare_impl::<NF, DESC, _>(l, r, move |i, j| lv[i].cmp(&rv[j]));
    let i: usize = kani::any();
    let j: usize = kani::any();
    kani::assume(i < 2 && j < 2);
    let a = if LN && (lb >> i) & 1 == 0 { None } else { Some(lv[i]) };
    let b = if RN && (rb >> j) & 1 == 0 { None } else { Some(rv[j]) };
    let got = f(i, j);
    assert!(got == spec_cmp_opt(a, b, NF, DESC));
    kani::cover!(a.is_none() != b.is_none() || (!LN && !RN));
    kani::cover!(a.is_some() && b.is_some() && got == Ordering::Less);
    kani::cover!(a.is_some() && b.is_some() && got == Ordering::Greater);
    kani::cover!((a.is_none() && b.is_none()) || !(LN && RN));
    std::mem::forget(f);
}
macro_rules! cmp_impl_unit {
    ($name:ident, $nf:expr, $d:expr, $ln:expr, $rn:expr) => {
        #[kani::proof]
        fn $name() { cmp_impl::<$nf, $d, $ln, $rn>() }
    };
}
// @unit name=cmp_impl_nf_desc_vv props=C10 kind=bounded bound=2_slots_per_side fns=compare_impl timeout=600
cmp_impl_unit!(cmp_impl_nf_desc_vv, true, true, false, false);
// @unit name=cmp_impl_nf_desc_vn props=C10 kind=bounded bound=2_slots_per_side fns=compare_impl timeout=600
cmp_impl_unit!(cmp_impl_nf_desc_vn, true, true, false, true);
// @unit name=cmp_impl_nf_desc_nv props=C10 kind=bounded bound=2_slots_per_side fns=compare_impl timeout=600
cmp_impl_unit!(cmp_impl_nf_desc_nv, true, true, true, false);
// @unit name=cmp_impl_nf_desc_nn props=C10 kind=bounded bound=2_slots_per_side fns=compare_impl timeout=600
cmp_impl_unit!(cmp_impl_nf_desc_nn, true, true, true, true);
// @unit name=cmp_impl_nf_asc_vv props=C10 kind=bounded bound=2_slots_per_side fns=compare_impl timeout=600
cmp_impl_unit!(cmp_impl_nf_asc_vv, true, false, false, false);
// @unit name=cmp_impl_nf_asc_vn props=C10 kind=bounded bound=2_slots_per_side fns=compare_impl timeout=600
cmp_impl_unit!(cmp_impl_nf_asc_vn, true, false, false, true);
// @unit name=cmp_impl_nf_asc_nv props=C10 kind=bounded bound=2_slots_per_side fns=compare_impl timeout=600
cmp_impl_unit!(cmp_impl_nf_asc_nv, true, false, true, false);
// @unit name=cmp_impl_nf_asc_nn props=C10 kind=bounded bound=2_slots_per_side fns=compare_impl timeout=600
cmp_impl_unit!(cmp_impl_nf_asc_nn, true, false, true, true);
// @unit name=cmp_impl_nl_desc_vv props=C10 kind=bounded bound=2_slots_per_side fns=compare_impl timeout=600
cmp_impl_unit!(cmp_impl_nl_desc_vv, false, true, false, false);
// @unit name=cmp_impl_nl_desc_vn props=C10 kind=bounded bound=2_slots_per_side fns=compare_impl timeout=600
cmp_impl_unit!(cmp_impl_nl_desc_vn, false, true, false, true);
// @unit name=cmp_impl_nl_desc_nv props=C10 kind=bounded bound=2_slots_per_side fns=compare_impl timeout=600
cmp_impl_unit!(cmp_impl_nl_desc_nv, false, true, true, false);
// @unit name=cmp_impl_nl_desc_nn props=C10 kind=bounded bound=2_slots_per_side fns=compare_impl timeout=600
cmp_impl_unit!(cmp_impl_nl_desc_nn, false, true, true, true);
// @unit name=cmp_impl_nl_asc_vv props=C10 kind=bounded bound=2_slots_per_side fns=compare_impl timeout=600
cmp_impl_unit!(cmp_impl_nl_asc_vv, false, false, false, false);
// @unit name=cmp_impl_nl_asc_vn props=C10 kind=bounded bound=2_slots_per_side fns=compare_impl timeout=600
cmp_impl_unit!(cmp_impl_nl_asc_vn, false, false, false, true);
// @unit name=cmp_impl_nl_asc_nv props=C10 kind=bounded bound=2_slots_per_side fns=compare_impl timeout=600
cmp_impl_unit!(cmp_impl_nl_asc_nv, false, false, true, false);
// @unit name=cmp_impl_nl_asc_nn props=C10 kind=bounded bound=2_slots_per_side fns=compare_impl timeout=600
cmp_impl_unit!(cmp_impl_nl_asc_nn, false, false, true, true);

fn mk_i32(v: [i32; 2], nulls: Option<NullBuffer>) -> Int32Array {
    match Int32Array::try_new(ScalarBuffer::from(vec![v[0], v[1]]), nulls) {
        Ok(a) => a,
        Err(e) => { std::mem::forget(e); unreachable!() }
    }
}
fn mk_f32(v: [f32; 2], nulls: Option<NullBuffer>) -> Float32Array {
    match Float32Array::try_new(ScalarBuffer::from(vec![v[0], v[1]]), nulls) {
        Ok(a) => a,
        Err(e) => { std::mem::forget(e); unreachable!() }
    }
}

// Contract (C10): compare_primitive::<T>(left, right, opts) on two 2-element arrays (symbolic values,
// symbolic validity bits incl. the bytes under null slots, symbolic options, every index pair):
//   f(i, j) == spec_cmp_opt(left[i], right[j], opts)  with values ordered by the mathematical order (Int32)
// / the IEEE-754 totalOrder key (Float32; spec::key32, independent of arrow's compare). Null-buffer presence
// is concrete per instance (LN, RN). Reaches compare -> logical_nulls().filter(null_count > 0) ->
// compare_impl::<..> through the real `&dyn Array` entry point. Arrays and comparator are forgotten.
macro_rules! cmp_prim {
    ($name:ident, $arrow:ty, $native:ty, $mk:ident, $key:expr, $ln:expr, $rn:expr) => {
        #[kani::proof]
        #[kani::stub(alloc::fmt::format, stub_format)]
        fn $name() {
            let lv: [$native; 2] = [kani::any(), kani::any()];
            let rv: [$native; 2] = [kani::any(), kani::any()];
            let (lb, rb): (u8, u8) = (kani::any(), kani::any());
            let left = $mk(lv, if $ln { Some(nulls2(lb)) } else { None });
            let right = $mk(rv, if $rn { Some(nulls2(rb)) } else { None });
            let opts = SortOptions { descending: kani::any(), nulls_first: kani::any() };
            let f = compare_primitive::<$arrow>(&left, &right, opts);
            let i: usize = kani::any();
            let j: usize = kani::any();
            kani::assume(i < 2 && j < 2);
            let key = $key;
            let a = if $ln && (lb >> i) & 1 == 0 { None } else { Some(key(lv[i])) };
            let b = if $rn && (rb >> j) & 1 == 0 { None } else { Some(key(rv[j])) };
            let got = f(i, j);
            assert!(got == spec_cmp_opt(a, b, opts.nulls_first, opts.descending));
            kani::cover!(!($ln || $rn) || (a.is_none() != b.is_none() && opts.nulls_first && opts.descending));
            kani::cover!(!($ln || $rn) || (a.is_none() != b.is_none() && !opts.nulls_first));
            kani::cover!(a.is_some() && b.is_some() && got == Ordering::Less && opts.descending);
            kani::cover!(a.is_some() && b.is_some() && got == Ordering::Less && !opts.descending);
            kani::cover!(!($ln && $rn) || (a.is_none() && b.is_none()));
            // a side with a null buffer but no null bit set takes the "filter -> None" path
            kani::cover!(!$ln || lb & 3 == 3);
            std::mem::forget(f);
            std::mem::forget(left);
            std::mem::forget(right);
        }
    };
}
// @unit name=cmp_prim_i32_vv props=C10 kind=bounded bound=2_elements_per_side_no_null_buffers fns=compare_primitive,compare,compare_impl mem=3 timeout=900
cmp_prim!(cmp_prim_i32_vv, Int32Type, i32, mk_i32, |x: i32| x as i64, false, false);
// @unit name=cmp_prim_i32_nv props=C10 kind=bounded bound=2_elements_per_side_left_null_buffer fns=compare_primitive,compare,compare_impl mem=3 timeout=900
cmp_prim!(cmp_prim_i32_nv, Int32Type, i32, mk_i32, |x: i32| x as i64, true, false);
// @unit name=cmp_prim_i32_vn props=C10 kind=bounded bound=2_elements_per_side_right_null_buffer fns=compare_primitive,compare,compare_impl mem=3 timeout=900
cmp_prim!(cmp_prim_i32_vn, Int32Type, i32, mk_i32, |x: i32| x as i64, false, true);
// @unit name=cmp_prim_i32_nn props=C10 kind=bounded bound=2_elements_per_side_both_null_buffers fns=compare_primitive,compare,compare_impl mem=3 timeout=900
cmp_prim!(cmp_prim_i32_nn, Int32Type, i32, mk_i32, |x: i32| x as i64, true, true);
// @unit name=cmp_prim_f32_vv props=C10 kind=bounded bound=2_elements_per_side_no_null_buffers fns=compare_primitive,compare,compare_impl mem=3 timeout=900
cmp_prim!(cmp_prim_f32_vv, Float32Type, f32, mk_f32, |x: f32| key32(x.to_bits()), false, false);
// @unit name=cmp_prim_f32_nn props=C10 kind=bounded bound=2_elements_per_side_both_null_buffers fns=compare_primitive,compare,compare_impl mem=3 timeout=900
cmp_prim!(cmp_prim_f32_nn, Float32Type, f32, mk_f32, |x: f32| key32(x.to_bits()), true, true);

// Contract (C10): compare_boolean on two 2-element BooleanArrays: f(i, j) == spec_cmp_opt with false < true,
// nulls per options; value bits, validity bits, options, indices symbolic; null-buffer presence per instance.
macro_rules! cmp_bool {
    ($name:ident, $ln:expr, $rn:expr) => {
        #[kani::proof]
        #[kani::stub(alloc::fmt::format, stub_format)]
        fn $name() {
            let (lvb, rvb): (u8, u8) = (kani::any(), kani::any());
            let (lb, rb): (u8, u8) = (kani::any(), kani::any());
            let left = BooleanArray::new(BooleanBuffer::new(Buffer::from(vec![lvb]), 0, 2), if $ln { Some(nulls2(lb)) } else { None });
            let right = BooleanArray::new(BooleanBuffer::new(Buffer::from(vec![rvb]), 0, 2), if $rn { Some(nulls2(rb)) } else { None });
            let opts = SortOptions { descending: kani::any(), nulls_first: kani::any() };
            let f = compare_boolean(&left, &right, opts);
            let i: usize = kani::any();
            let j: usize = kani::any();
            kani::assume(i < 2 && j < 2);
            let a = if $ln && (lb >> i) & 1 == 0 { None } else { Some((lvb >> i) & 1) };
            let b = if $rn && (rb >> j) & 1 == 0 { None } else { Some((rvb >> j) & 1) };
            let got = f(i, j);
            assert!(got == spec_cmp_opt(a, b, opts.nulls_first, opts.descending));
            kani::cover!(!($ln || $rn) || (a.is_none() != b.is_none() && opts.nulls_first));
            kani::cover!(a == Some(0) && b == Some(1) && got == Ordering::Greater);
            kani::cover!(a == Some(0) && b == Some(1) && got == Ordering::Less);
            std::mem::forget(f);
            std::mem::forget(left);
            std::mem::forget(right);
        }
    };
}
// @unit name=cmp_bool_vv props=C10 kind=bounded bound=2_elements_per_side_no_null_buffers fns=compare_boolean,compare,compare_impl mem=3 timeout=900
cmp_bool!(cmp_bool_vv, false, false);
// @unit name=cmp_bool_nn props=C10 kind=bounded bound=2_elements_per_side_both_null_buffers fns=compare_boolean,compare,compare_impl mem=3 timeout=900
cmp_bool!(cmp_bool_nn, true, true);

/// first-difference scan, then length (shorter prefix is smaller): the lexicographic byte-string order
fn lex_s(a: &[u8], b: &[u8]) -> Ordering {
    let n = if a.len() < b.len() { a.len() } else { b.len() };
    let mut i = 0;
    while i < n {
        if a[i] != b[i] { return if a[i] < b[i] { Ordering::Less } else { Ordering::Greater }; }
        i += 1;
    }
    if a.len() < b.len() { Ordering::Less } else if a.len() > b.len() { Ordering::Greater } else { Ordering::Equal }
}

// Contract (C10): compare_bytes::<BinaryType> on two 2-element binary arrays with concrete value lengths
// (left: 2 and 1 bytes, right: 1 and 3 bytes), symbolic contents / validity / options / indices:
// f(i, j) == null table, values by lexicographic byte order (first difference, then length), reversed iff
// descending. (std's slice Ord is what the code calls; the spec is the scan above.)
// @unit name=cmp_bytes_nn props=C10 kind=bounded bound=2_elements_per_side_value_lengths_2_1_and_1_3 fns=compare_bytes,compare,compare_impl mem=4 timeout=900 tier=thorough note=not_confirmed_under_load
#[kani::proof]
#[kani::stub(alloc::fmt::format, stub_format)]
fn cmp_bytes_nn() {
    let ld: [u8; 3] = kani::any();
    let rd: [u8; 4] = kani::any();
    let (lb, rb): (u8, u8) = (kani::any(), kani::any());
    let left = unsafe { GenericBinaryArray::<i32>::new_unchecked(
        arrow_buffer::OffsetBuffer::new_unchecked(ScalarBuffer::from(vec![0i32, 2, 3])), Buffer::from(vec![ld[0], ld[1], ld[2]]), Some(nulls2(lb))) };
    let right = unsafe { GenericBinaryArray::<i32>::new_unchecked(
        arrow_buffer::OffsetBuffer::new_unchecked(ScalarBuffer::from(vec![0i32, 1, 4])), Buffer::from(vec![rd[0], rd[1], rd[2], rd[3]]), Some(nulls2(rb))) };
    let opts = SortOptions { descending: kani::any(), nulls_first: kani::any() };
    let f = compare_bytes::<BinaryType>(&left, &right, opts);
    let i: usize = kani::any();
    let j: usize = kani::any();
    kani::assume(i < 2 && j < 2);
    let lo = [0usize, 2, 3];
    let ro = [0usize, 1, 4];
    let (ls, rs) = (&ld[lo[i]..lo[i + 1]], &rd[ro[j]..ro[j + 1]]);
    let got = f(i, j);
    let (an, bn) = ((lb >> i) & 1 == 0, (rb >> j) & 1 == 0);
    let want = match (an, bn) {
        (true, true) => Ordering::Equal,
        (true, false) => if opts.nulls_first { Ordering::Less } else { Ordering::Greater },
        (false, true) => if opts.nulls_first { Ordering::Greater } else { Ordering::Less },
        (false, false) => if opts.descending { rev(lex_s(ls, rs)) } else { lex_s(ls, rs) },
    };
    assert!(got == want);
    kani::cover!(!an && !bn && i == 0 && j == 1 && ld[0] == rd[1] && ld[1] == rd[2] && got == Ordering::Less); // proper prefix
    kani::cover!(!an && !bn && got == Ordering::Equal);
    kani::cover!(an && !bn);
    std::mem::forget(f);
    std::mem::forget(left);
    std::mem::forget(right);
}
