// Independent specification helpers shared by harness modules (included with #[path]).
// Written from the property statements / IEEE-754 / Arrow format text, never from the code under test.
#![allow(dead_code)]
use std::cmp::Ordering;

/// IEEE-754 totalOrder key for a 16-bit float bit pattern: negative values map below
/// positives, magnitude reversed for negatives (sign-magnitude -> two's complement).
pub fn key16(bits: u16) -> i32 { let m = (bits & 0x7fff) as i32; if bits >> 15 == 1 { -m - 1 } else { m } }
pub fn key32(bits: u32) -> i64 { let m = (bits & 0x7fff_ffff) as i64; if bits >> 31 == 1 { -m - 1 } else { m } }
pub fn key64(bits: u64) -> i128 { let m = (bits & 0x7fff_ffff_ffff_ffff) as i128; if bits >> 63 == 1 { -m - 1 } else { m } }

/// lexicographic comparison of two equal-length byte arrays, written as a first-difference scan
pub fn lex<const N: usize>(a: &[u8; N], b: &[u8; N]) -> Ordering {
    let mut i = 0;
    while i < N {
        if a[i] != b[i] { return if a[i] < b[i] { Ordering::Less } else { Ordering::Greater }; }
        i += 1;
    }
    Ordering::Equal
}

/// stub for alloc::fmt::format: error *messages* are not part of any contract
pub fn stub_format(_args: std::fmt::Arguments<'_>) -> String { String::new() }

/// bit i of a little-endian bit-packed byte sequence (Arrow validity/boolean layout)
pub fn bit(s: &[u8], i: usize) -> bool { (s[i / 8] >> (i % 8)) & 1 == 1 }
