// Independent specification of 256-bit two's-complement integer arithmetic, shared by the harness
// modules of arrow-buffer/src/bigint/mod.rs and arrow-array/src/arithmetic.rs (included with #[path]).
// A value is modelled as four base-2^64 digits, least significant first; the most significant digit is
// read as SIGNED (i64), the others as unsigned:  value(d) = d0 + d1*2^64 + d2*2^128 + (d3 as i64)*2^192.
// Everything is schoolbook arithmetic on the digits with carries held in 128-bit primitives - written
// from the definition of positional notation, not from the i256 code (which works on a (u128, i128)
// pair with overflowing_add and a sign rule).
#![allow(dead_code)]
use std::cmp::Ordering;

pub type D4 = [u64; 4];

/// digits of the number whose low 128 bits are `lo` and whose high 128 bits (signed) are `hi`
pub fn digits(lo: u128, hi: i128) -> D4 {
    [lo as u64, (lo >> 64) as u64, hi as u64, ((hi as u128) >> 64) as u64]
}
/// inverse of `digits`
pub fn parts(d: D4) -> (u128, i128) {
    ((d[0] as u128) | ((d[1] as u128) << 64), ((d[2] as u128) | ((d[3] as u128) << 64)) as i128)
}

/// exact a + b: (digits of the sum reduced mod 2^256, true iff the exact sum is outside [-2^255, 2^255))
pub fn add_spec(a: D4, b: D4) -> (D4, bool) {
    let s0 = a[0] as u128 + b[0] as u128;
    let s1 = a[1] as u128 + b[1] as u128 + (s0 >> 64);
    let s2 = a[2] as u128 + b[2] as u128 + (s1 >> 64);
    // most significant digit: signed, exact in i128
    let t = (a[3] as i64) as i128 + (b[3] as i64) as i128 + (s2 >> 64) as i128;
    let overflow = t < i64::MIN as i128 || t > i64::MAX as i128;
    ([s0 as u64, s1 as u64, s2 as u64, t as u64], overflow)
}

/// exact a - b, same conventions (borrows are the negative carries of the signed digit differences)
pub fn sub_spec(a: D4, b: D4) -> (D4, bool) {
    let s0 = a[0] as i128 - b[0] as i128;
    let s1 = a[1] as i128 - b[1] as i128 + (s0 >> 64); // arithmetic shift: -1 if a borrow is needed, else 0
    let s2 = a[2] as i128 - b[2] as i128 + (s1 >> 64);
    let t = (a[3] as i64) as i128 - (b[3] as i64) as i128 + (s2 >> 64);
    let overflow = t < i64::MIN as i128 || t > i64::MAX as i128;
    ([s0 as u64, s1 as u64, s2 as u64, t as u64], overflow)
}

/// mathematical order of the two values: signed top digit first, then the unsigned digits downwards
pub fn cmp_spec(a: D4, b: D4) -> Ordering {
    if (a[3] as i64) != (b[3] as i64) { return if (a[3] as i64) < (b[3] as i64) { Ordering::Less } else { Ordering::Greater }; }
    let mut i = 3;
    while i > 0 {
        i -= 1;
        if a[i] != b[i] { return if a[i] < b[i] { Ordering::Less } else { Ordering::Greater }; }
    }
    Ordering::Equal
}

pub const ZERO4: D4 = [0, 0, 0, 0];
pub const MIN4: D4 = [0, 0, 0, 1 << 63];
pub const MAX4: D4 = [u64::MAX, u64::MAX, u64::MAX, u64::MAX >> 1];
pub fn is_neg(a: D4) -> bool { (a[3] as i64) < 0 }
/// bit i (0 = least significant) of the 256-bit two's complement pattern
pub fn bit256(a: D4, i: u32) -> bool { (a[(i / 64) as usize] >> (i % 64)) & 1 == 1 }
/// digits of the sign extension of a 128-bit signed value
pub fn from_i128_spec(v: i128) -> D4 {
    let ext = if v < 0 { u64::MAX } else { 0 };
    [v as u64, ((v as u128) >> 64) as u64, ext, ext]
}
