// Kani contract harnesses for /repo/arrow-ord/src/cmp.rs (child module: sees private items via super::)
use super::*;
use arrow_buffer::Buffer;
#[path = "/verif/kani/support/spec.rs"]
mod spec;
use spec::*;

// Contract (C10): collect_bool(len, neg, f) packs bit i of the result as f(i) XOR neg for every i < len, the
// result has length `len` and offset 0 -- at concrete lengths around the 64-bit chunk boundary (0, 1, 63, 64,
// 65, 70); the predicate (an arbitrary bit table), `neg` and the probed index are symbolic. Reaches the
// full-chunk closure (len >= 64), the remainder block (len % 64 != 0) and the empty case.
fn collect_bool_at<const LEN: usize, const NB: usize>() {
    let table: [u8; NB] = kani::any();
    let neg: bool = kani::any();
    let b = collect_bool(LEN, neg, |i| bit(&table, i));
    assert!(b.len() == LEN && b.offset() == 0);
    if LEN > 0 {
        let i: usize = kani::any();
        kani::assume(i < LEN);
        assert!(b.value(i) == (bit(&table, i) != neg));
        kani::cover!(i == LEN - 1 && neg && b.value(i));
        kani::cover!(i == 0 && !neg && b.value(i));
        kani::cover!(LEN < 65 || (i == 63 && b.value(63) && !b.value(64)));
        kani::cover!(LEN < 65 || i == 64);
    }
    kani::cover!(neg);
    kani::cover!(!neg);
}
macro_rules! collect_bool_unit {
    ($name:ident, $len:expr) => {
        #[kani::proof]
        fn $name() { collect_bool_at::<$len, { $len / 8 + 1 }>() }
    };
}
// @unit name=collect_bool_0 props=C10 kind=bounded bound=len_0 fns=collect_bool timeout=600 tier=thorough note=not_confirmed_under_load
collect_bool_unit!(collect_bool_0, 0);
// @unit name=collect_bool_1 props=C10 kind=bounded bound=len_1 fns=collect_bool timeout=600 tier=thorough note=not_confirmed_under_load
collect_bool_unit!(collect_bool_1, 1);
// @unit name=collect_bool_63 props=C10 kind=bounded bound=len_63 fns=collect_bool timeout=600 tier=thorough note=not_confirmed_under_load
collect_bool_unit!(collect_bool_63, 63);
// @unit name=collect_bool_64 props=C10 kind=bounded bound=len_64 fns=collect_bool timeout=600 tier=thorough note=not_confirmed_under_load
collect_bool_unit!(collect_bool_64, 64);
// @unit name=collect_bool_65 props=C10 kind=bounded bound=len_65 fns=collect_bool timeout=600 tier=thorough note=not_confirmed_under_load
collect_bool_unit!(collect_bool_65, 65);
// @unit name=collect_bool_70 props=C10 kind=bounded bound=len_70 fns=collect_bool timeout=600 tier=thorough note=not_confirmed_under_load
collect_bool_unit!(collect_bool_70, 70);

fn any_op() -> (Op, u8) {
    let k: u8 = kani::any();
    kani::assume(k < 8);
    (match k { 0 => Op::Equal, 1 => Op::NotEqual, 2 => Op::Less, 3 => Op::LessEqual, 4 => Op::Greater, 5 => Op::GreaterEqual, 6 => Op::Distinct, _ => Op::NotDistinct }, k)
}
/// the predicate each Op denotes on the (total) key order -- the documented meaning of eq/neq/lt/lt_eq/gt/gt_eq
/// and of (not_)distinct on two non-null values
fn spec_op<K: Ord>(k: u8, a: K, b: K) -> bool {
    match k { 0 | 7 => a == b, 1 | 6 => a != b, 2 => a < b, 3 => a <= b, 4 => a > b, _ => a >= b }
}
const NO_SIDE: SideInfo<'static> = SideInfo { is_scalar: false, dict: None, ree: None };
const SCALAR_SIDE: SideInfo<'static> = SideInfo { is_scalar: true, dict: None, ree: None };

// Contract (C10): apply(op, l, l_side, r, r_side) over `&[T]` ArrayOrd operands without dictionary / REE
// indirection, for a symbolic Op among all eight {Equal, NotEqual, Less, LessEqual, Greater, GreaterEqual,
// Distinct, NotDistinct}: the returned value buffer has the length of the non-scalar side (1 if both are
// scalars) and bit i == spec_op(op)(key(l_i), key(r_i)) where a scalar side contributes its single value and
// key is the native total order (i32: mathematical; f32: IEEE totalOrder key -- so NaN == NaN, -0.0 < +0.0).
// LL / LR are the concrete operand lengths (1 for a scalar side). This covers the operand swap + negation
// encoding of LessEqual / Greater / GreaterEqual in `apply`, and apply_op's four scalar/array forms.
macro_rules! apply_unit {
    ($name:ident, $t:ty, $ll:expr, $lr:expr, $ls:expr, $rs:expr, $key:expr) => {
        #[kani::proof]
        fn $name() {
            let l: [$t; $ll] = kani::any();
            let r: [$t; $lr] = kani::any();
            let (op, k) = any_op();
            let out = apply(op, &l[..], if $ls { &SCALAR_SIDE } else { &NO_SIDE }, &r[..], if $rs { &SCALAR_SIDE } else { &NO_SIDE });
            let b = match out { Some(b) => b, None => { assert!(false); return; } };
            let n = if $ls { if $rs { 1 } else { $lr } } else { $ll };
            assert!(b.len() == n);
            let i: usize = kani::any();
            kani::assume(i < n);
            let key = $key;
            let (x, y) = (l[if $ls { 0 } else { i }], r[if $rs { 0 } else { i }]);
            assert!(b.value(i) == spec_op(k, key(x), key(y)));
            kani::cover!(k == 3 && b.value(i) && key(x) == key(y));
            kani::cover!(k == 4 && b.value(i));
            kani::cover!(k == 5 && !b.value(i));
            kani::cover!(k == 6 && b.value(i));
            kani::cover!(k == 7 && b.value(i));
            kani::cover!(k == 2 && b.value(i) && i == n - 1);
        }
    };
}
// @unit name=apply_i32_aa props=C10 kind=bounded bound=4_vs_4_values fns=apply,apply_op,collect_bool timeout=600 tier=thorough note=not_confirmed_under_load
apply_unit!(apply_i32_aa, i32, 4, 4, false, false, |x: i32| x as i64);
// @unit name=apply_i32_sa props=C10 kind=bounded bound=scalar_vs_4_values fns=apply,apply_op,scalar_index,collect_bool timeout=600 tier=thorough note=not_confirmed_under_load
apply_unit!(apply_i32_sa, i32, 1, 4, true, false, |x: i32| x as i64);
// @unit name=apply_i32_as props=C10 kind=bounded bound=4_values_vs_scalar fns=apply,apply_op,scalar_index,collect_bool timeout=600 tier=thorough note=not_confirmed_under_load
apply_unit!(apply_i32_as, i32, 4, 1, false, true, |x: i32| x as i64);
// @unit name=apply_i32_ss props=C10 kind=bounded bound=scalar_vs_scalar fns=apply,apply_op,scalar_index timeout=600 tier=thorough note=not_confirmed_under_load
apply_unit!(apply_i32_ss, i32, 1, 1, true, true, |x: i32| x as i64);
// @unit name=apply_f32_aa props=C10 kind=bounded bound=3_vs_3_values fns=apply,apply_op,collect_bool timeout=600 tier=thorough note=not_confirmed_under_load
apply_unit!(apply_f32_aa, f32, 3, 3, false, false, |x: f32| key32(x.to_bits()));
// @unit name=apply_f32_as props=C10 kind=bounded bound=3_values_vs_scalar fns=apply,apply_op,scalar_index,collect_bool timeout=600 tier=thorough note=not_confirmed_under_load
apply_unit!(apply_f32_as, f32, 3, 1, false, true, |x: f32| key32(x.to_bits()));

// Contract (C10): floats compare by totalOrder inside the kernels: for the f32 array-array form, Equal holds
// between two NaNs exactly when their bit patterns agree, and -0.0 is Less than +0.0 (witnessed by covers).
// @unit name=apply_f32_nan_zero props=C10 kind=bounded bound=2_vs_2_values fns=apply,apply_op timeout=600 tier=thorough note=not_confirmed_under_load
#[kani::proof]
fn apply_f32_nan_zero() {
    let l: [f32; 2] = kani::any();
    let r: [f32; 2] = kani::any();
    let eq = apply(Op::Equal, &l[..], &NO_SIDE, &r[..], &NO_SIDE).unwrap();
    let lt = apply(Op::Less, &l[..], &NO_SIDE, &r[..], &NO_SIDE).unwrap();
    assert!(eq.value(0) == (l[0].to_bits() == r[0].to_bits()));
    assert!(lt.value(1) == (key32(l[1].to_bits()) < key32(r[1].to_bits())));
    kani::cover!(l[0].is_nan() && r[0].is_nan() && eq.value(0));
    kani::cover!(l[0].is_nan() && r[0].is_nan() && !eq.value(0));
    kani::cover!(l[1].to_bits() == 0x8000_0000 && r[1].to_bits() == 0 && lt.value(1));
    kani::cover!(l[0] == r[0] && !eq.value(0)); // +0.0 vs -0.0: IEEE-equal but not totalOrder-equal
}

// Contract (C10): apply returns None (caller substitutes an all-false buffer) iff one operand is empty.
// @unit name=apply_empty props=C10 kind=bounded bound=0_vs_0_and_0_vs_scalar fns=apply timeout=600 tier=thorough note=not_confirmed_under_load
#[kani::proof]
fn apply_empty() {
    let e: [i32; 0] = [];
    let s: [i32; 1] = kani::any();
    let (op, _) = any_op();
    assert!(apply(op, &e[..], &NO_SIDE, &e[..], &NO_SIDE).is_none());
    assert!(apply(op, &e[..], &NO_SIDE, &s[..], &SCALAR_SIDE).is_none());
    assert!(apply(op, &s[..], &SCALAR_SIDE, &e[..], &NO_SIDE).is_none());
    kani::cover!(true);
}

// Contract (C10): apply_op with an explicit scalar index (the dictionary-scalar case: l_s = Some(idx) selects
// the value of a 3-element operand): bit i == op(l[idx], r[i]) XOR neg for op in {is_eq, is_lt}, and the
// mirrored form; idx, neg, the choice of op and all values symbolic.
// @unit name=apply_op_scalar_idx props=C10 kind=bounded bound=3_values_scalar_index_vs_4_values fns=apply_op,collect_bool timeout=600 tier=thorough note=not_confirmed_under_load
#[kani::proof]
fn apply_op_scalar_idx() {
    let l: [i32; 3] = kani::any();
    let r: [i32; 4] = kani::any();
    let idx: usize = kani::any();
    kani::assume(idx < 3);
    let neg: bool = kani::any();
    let use_lt: bool = kani::any();
    let left_scalar: bool = kani::any();
    let b = match (use_lt, left_scalar) {
        (true, true) => apply_op(&l[..], Some(idx), &r[..], None, neg, <&[i32] as ArrayOrd>::is_lt),
        (false, true) => apply_op(&l[..], Some(idx), &r[..], None, neg, <&[i32] as ArrayOrd>::is_eq),
        (true, false) => apply_op(&r[..], None, &l[..], Some(idx), neg, <&[i32] as ArrayOrd>::is_lt),
        (false, false) => apply_op(&r[..], None, &l[..], Some(idx), neg, <&[i32] as ArrayOrd>::is_eq),
    };
    assert!(b.len() == 4);
    let i: usize = kani::any();
    kani::assume(i < 4);
    let (x, y) = if left_scalar { (l[idx], r[i]) } else { (r[i], l[idx]) };
    assert!(b.value(i) == ((if use_lt { x < y } else { x == y }) != neg));
    kani::cover!(idx == 2 && use_lt && left_scalar && b.value(i) && !neg);
    kani::cover!(idx == 1 && !use_lt && !left_scalar && b.value(i) && neg);
}

// Contract (C10): apply_op_vectored(l, l_v, r, r_v, neg, op): result length == l_v.len() and
// bit i == op(l[l_v[i]], r[r_v[i]]) XOR neg -- 3 + 2 physical values, 4 logical rows with symbolic in-range
// index vectors, symbolic neg and op in {is_eq, is_lt}.
// @unit name=apply_op_vectored_4 props=C10 kind=bounded bound=4_rows_over_3_and_2_values fns=apply_op_vectored,collect_bool timeout=600 tier=thorough note=not_confirmed_under_load
#[kani::proof]
fn apply_op_vectored_4() {
    let l: [i32; 3] = kani::any();
    let r: [i32; 2] = kani::any();
    let l_v: [usize; 4] = kani::any();
    let r_v: [usize; 4] = kani::any();
    let mut k = 0;
    while k < 4 { kani::assume(l_v[k] < 3 && r_v[k] < 2); k += 1; }
    let neg: bool = kani::any();
    let use_lt: bool = kani::any();
    let b = if use_lt { apply_op_vectored(&l[..], &l_v, &r[..], &r_v, neg, <&[i32] as ArrayOrd>::is_lt) }
            else { apply_op_vectored(&l[..], &l_v, &r[..], &r_v, neg, <&[i32] as ArrayOrd>::is_eq) };
    assert!(b.len() == 4);
    let i: usize = kani::any();
    kani::assume(i < 4);
    let (x, y) = (l[l_v[i]], r[r_v[i]]);
    assert!(b.value(i) == ((if use_lt { x < y } else { x == y }) != neg));
    kani::cover!(l_v[i] == 2 && r_v[i] == 1 && b.value(i));
    kani::cover!(l_v[0] == l_v[3] && neg && !b.value(0));
}

// Contract (C10): the `&BooleanArray` ArrayOrd impl orders false < true: apply over two 4-element boolean
// arrays (values symbolic), every Op: bit i == spec_op(op)(l_i as u8, r_i as u8). Arrays forgotten.
// @unit name=apply_bool_aa props=C10 kind=bounded bound=4_vs_4_values fns=apply,apply_op,collect_bool timeout=600 tier=thorough note=not_confirmed_under_load
#[kani::proof]
fn apply_bool_aa() {
    let (lb, rb): (u8, u8) = (kani::any(), kani::any());
    let l = BooleanArray::new(BooleanBuffer::new(Buffer::from(vec![lb]), 0, 4), None);
    let r = BooleanArray::new(BooleanBuffer::new(Buffer::from(vec![rb]), 0, 4), None);
    let (op, k) = any_op();
    let b = apply(op, &l, &NO_SIDE, &r, &NO_SIDE).unwrap();
    assert!(b.len() == 4);
    let i: usize = kani::any();
    kani::assume(i < 4);
    assert!(b.value(i) == spec_op(k, (lb >> i) & 1, (rb >> i) & 1));
    kani::cover!(k == 2 && b.value(i));
    kani::cover!(k == 5 && b.value(i) && (lb >> i) & 1 == 1 && (rb >> i) & 1 == 1);
    std::mem::forget(l);
    std::mem::forget(r);
}
