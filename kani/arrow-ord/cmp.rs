// Kani contract harnesses for /repo/arrow-ord/src/cmp.rs (child module: sees private items via super::)
