// Kani contract harnesses for /repo/arrow-ord/src/partition.rs (child module: sees private items via super::)
