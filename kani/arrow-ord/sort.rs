// Kani contract harnesses for /repo/arrow-ord/src/sort.rs (child module: sees private items via super::)
