// Kani contract harnesses for /repo/arrow-ord/src/sort.rs (child module: sees private items via super::)
use super::*;
use arrow_array::ArrowNativeTypeOp;
use arrow_buffer::{BooleanBuffer, Buffer, NullBuffer, ScalarBuffer};
#[path = "/verif/kani/support/spec.rs"]
mod spec;
use spec::*;

// ---------------------------------------------------------------------------------------------------------
// CONTRACT STUB for the sorting engine (assumption of every unit below that names it):
//   sort::sort_unstable_by(array, limit, cmp)  [arrow's 8-line wrapper around std `slice::sort_unstable_by`
//   and `partial_sort` = std `select_nth_unstable_by` + `sort_unstable_by`]
//   ensures: `array` is a permutation of its old contents; the first `limit` elements are sorted under `cmp`
//   and every one of them is <= (under cmp) every element at position >= limit. Requires limit <= len (std's
//   select_nth panics otherwise: kept as an assertion so that arrow's v_limit computation is checked).
// Std's sort on 3 elements needs 45 GB in CBMC (DESIGN.md section 3), hence the stub. The permutation is built
// by a nondeterministic Fisher-Yates shuffle (swaps only: no Clone/Arbitrary bound on T is needed, every
// permutation is reachable), then constrained with kani::assume using the comparator that was passed in.
// ---------------------------------------------------------------------------------------------------------
fn stub_sort_unstable_by<T, F>(array: &mut [T], limit: usize, mut cmp: F)
where
    F: FnMut(&T, &T) -> Ordering,
{
    let n = array.len();
    assert!(limit <= n, "partial_sort/select_nth_unstable_by would panic: limit > len");
    let mut i = 0;
    while i < n {
        let j: usize = kani::any();
        kani::assume(i <= j && j < n);
        array.swap(i, j);
        i += 1;
    }
    let mut i = 0;
    while i < limit {
        let mut j = i + 1;
        while j < n {
            kani::assume(cmp(&array[i], &array[j]) != Ordering::Greater);
            j += 1;
        }
        i += 1;
    }
}

/// Spec side of the slot order for the valid part of a sort: key order, reversed iff descending.
fn ord_desc(o: Ordering, d: bool) -> Ordering {
    if !d { o } else { match o { Ordering::Less => Ordering::Greater, Ordering::Greater => Ordering::Less, Ordering::Equal => Ordering::Equal } }
}

// Contract (C10): sort_impl(options, valids, nulls, limit, cmp) -- arrow's own logic around the (stubbed)
// sorting engine -- for NV valid (index, value) pairs with indices 0..NV and NN null indices 100, 101
// (counts, `limit` (LIMIT < 0 means None) and nulls_first are CONCRETE per instance because they size
// extend_from_slice / take() -- grid rule; values and `descending` symbolic):
//  (1) out.len() == min(limit or total, total);
//  (2) null placement: with nulls_first the output starts with the first min(NN, len) null indices in INPUT
//      order, followed only by valid indices; with nulls last it starts with min(NV, len) valid indices,
//      followed by the null indices in input order;
//  (3) the valid part is non-decreasing under the key order (mathematical order for i32, IEEE totalOrder
//      key for f32), non-increasing when descending;
//  (4) truncation keeps the smallest: every valid index missing from the output has a value that does not
//      sort before any valid value present in the output;
//  (5) permutation prefix: no index occurs twice, every output element is one of the input indices.
// Assumption: the sort engine meets the contract stated at stub_sort_unstable_by (std is trusted).
macro_rules! sort_impl_unit {
    ($name:ident, $t:ty, $nv:expr, $nn:expr, $limit:expr, $nf:expr, $key:expr) => {
        #[kani::proof]
        #[kani::stub(sort_unstable_by, stub_sort_unstable_by)]
        fn $name() {
            const NV: usize = $nv;
            const NN: usize = $nn;
            let vals: [$t; NV] = kani::any();
            let mut valids: [(u32, $t); NV] = [(0, vals.get(0).copied().unwrap_or_default()); NV];
            let mut k = 0;
            while k < NV { valids[k] = (k as u32, vals[k]); k += 1; }
            let nulls_all = [100u32, 101];
            let nulls = &nulls_all[..NN];
            let options = SortOptions { descending: kani::any(), nulls_first: $nf };
            const LIMIT: i64 = $limit;
            let limit: Option<usize> = if LIMIT < 0 { None } else { Some(LIMIT as usize) };
            let out = sort_impl(options, &mut valids[..], nulls, limit, <$t as ArrowNativeTypeOp>::compare);
            let total = NV + NN;
            let want_len = match limit { Some(l) => if l < total { l } else { total }, None => total };
            // (1)
            assert!(out.len() == want_len);
            let key = $key;
            let n_nulls_out = if options.nulls_first { if NN < want_len { NN } else { want_len } } else { if want_len > NV { want_len - NV } else { 0 } };
            let n_valid_out = want_len - n_nulls_out;
            let valid_start = if options.nulls_first { n_nulls_out } else { 0 };
            let null_start = if options.nulls_first { 0 } else { n_valid_out };
            // (2)
            let mut p = 0;
            while p < NN { if p < n_nulls_out { assert!(out[null_start + p] == nulls_all[p]); } p += 1; }
            let mut p = 0;
            while p < NV { if p < n_valid_out { assert!((out[valid_start + p] as usize) < NV); } p += 1; }
            // (3)
            let mut p = 0;
            while p + 1 < NV {
                if p + 1 < n_valid_out {
                    let (x, y) = (vals[out[valid_start + p] as usize], vals[out[valid_start + p + 1] as usize]);
                    assert!(ord_desc(key(x).cmp(&key(y)), options.descending) != Ordering::Greater);
                }
                p += 1;
            }
            // (5) + (4)
            let mut present = [false; NV];
            let mut p = 0;
            while p < NV {
                if p < n_valid_out {
                    let id = out[valid_start + p] as usize;
                    assert!(!present[id]);
                    present[id] = true;
                }
                p += 1;
            }
            let mut m = 0;
            while m < NV {
                let mut q = 0;
                while q < NV {
                    if !present[m] && present[q] {
                        assert!(ord_desc(key(vals[m]).cmp(&key(vals[q])), options.descending) != Ordering::Less);
                    }
                    q += 1;
                }
                m += 1;
            }
            kani::cover!(options.descending);
            kani::cover!(!options.descending);
            kani::cover!(NV < 2 || (options.descending && key(vals[0]) != key(vals[1])));
            // the engine really permuted something / the partial path (limit < valids.len()) was taken
            kani::cover!(n_valid_out < 2 || out[valid_start] > out[valid_start + 1]);
            kani::cover!(n_valid_out == NV || n_valid_out == 0 || present.get(0) == Some(&false));
        }
    };
}
// @unit name=sort_impl_i32_3_2_none_nf props=C10 kind=bounded bound=3_valid_2_null_limit_none_nulls_first fns=sort_impl mem=2 timeout=900 tier=thorough note=not_confirmed_under_load
sort_impl_unit!(sort_impl_i32_3_2_none_nf, i32, 3, 2, -1, true, |x: i32| x as i64);
// @unit name=sort_impl_i32_3_2_none_nl props=C10 kind=bounded bound=3_valid_2_null_limit_none_nulls_last fns=sort_impl mem=2 timeout=900
sort_impl_unit!(sort_impl_i32_3_2_none_nl, i32, 3, 2, -1, false, |x: i32| x as i64);
// @unit name=sort_impl_i32_3_2_l0_nf props=C10 kind=bounded bound=3_valid_2_null_limit_0_nulls_first fns=sort_impl mem=2 timeout=900 tier=thorough note=not_confirmed_under_load
sort_impl_unit!(sort_impl_i32_3_2_l0_nf, i32, 3, 2, 0, true, |x: i32| x as i64);
// @unit name=sort_impl_i32_3_2_l1_nf props=C10 kind=bounded bound=3_valid_2_null_limit_1_nulls_first fns=sort_impl mem=2 timeout=900 tier=thorough note=not_confirmed_under_load
sort_impl_unit!(sort_impl_i32_3_2_l1_nf, i32, 3, 2, 1, true, |x: i32| x as i64);
// @unit name=sort_impl_i32_3_2_l2_nf props=C10 kind=bounded bound=3_valid_2_null_limit_2_nulls_first fns=sort_impl mem=2 timeout=900
sort_impl_unit!(sort_impl_i32_3_2_l2_nf, i32, 3, 2, 2, true, |x: i32| x as i64);
// @unit name=sort_impl_i32_3_2_l3_nl props=C10 kind=bounded bound=3_valid_2_null_limit_3_nulls_last fns=sort_impl mem=2 timeout=900 tier=thorough note=not_confirmed_under_load
sort_impl_unit!(sort_impl_i32_3_2_l3_nl, i32, 3, 2, 3, false, |x: i32| x as i64);
// @unit name=sort_impl_i32_3_2_l3_nf props=C10 kind=bounded bound=3_valid_2_null_limit_3_nulls_first fns=sort_impl mem=2 timeout=900 tier=thorough note=not_confirmed_under_load
sort_impl_unit!(sort_impl_i32_3_2_l3_nf, i32, 3, 2, 3, true, |x: i32| x as i64);
// @unit name=sort_impl_i32_3_2_l4_nf props=C10 kind=bounded bound=3_valid_2_null_limit_4_nulls_first fns=sort_impl mem=2 timeout=900
sort_impl_unit!(sort_impl_i32_3_2_l4_nf, i32, 3, 2, 4, true, |x: i32| x as i64);
// @unit name=sort_impl_i32_3_2_l4_nl props=C10 kind=bounded bound=3_valid_2_null_limit_4_nulls_last fns=sort_impl mem=2 timeout=900 tier=thorough note=not_confirmed_under_load
sort_impl_unit!(sort_impl_i32_3_2_l4_nl, i32, 3, 2, 4, false, |x: i32| x as i64);
// @unit name=sort_impl_i32_3_2_l5_nf props=C10 kind=bounded bound=3_valid_2_null_limit_5_nulls_first fns=sort_impl tier=thorough mem=2 timeout=900 note=not_confirmed_under_load
sort_impl_unit!(sort_impl_i32_3_2_l5_nf, i32, 3, 2, 5, true, |x: i32| x as i64);
// @unit name=sort_impl_i32_3_2_l6_nl props=C10 kind=bounded bound=3_valid_2_null_limit_6_nulls_last fns=sort_impl mem=2 timeout=900 tier=thorough note=not_confirmed_under_load
sort_impl_unit!(sort_impl_i32_3_2_l6_nl, i32, 3, 2, 6, false, |x: i32| x as i64);
// @unit name=sort_impl_i32_3_2_l6_nf props=C10 kind=bounded bound=3_valid_2_null_limit_6_nulls_first fns=sort_impl tier=thorough mem=2 timeout=900 note=not_confirmed_under_load
sort_impl_unit!(sort_impl_i32_3_2_l6_nf, i32, 3, 2, 6, true, |x: i32| x as i64);
// @unit name=sort_impl_i32_3_2_l1_nl props=C10 kind=bounded bound=3_valid_2_null_limit_1_nulls_last fns=sort_impl tier=thorough mem=2 timeout=900 note=not_confirmed_under_load
sort_impl_unit!(sort_impl_i32_3_2_l1_nl, i32, 3, 2, 1, false, |x: i32| x as i64);
// @unit name=sort_impl_i32_3_2_l2_nl props=C10 kind=bounded bound=3_valid_2_null_limit_2_nulls_last fns=sort_impl tier=thorough mem=2 timeout=900 note=not_confirmed_under_load
sort_impl_unit!(sort_impl_i32_3_2_l2_nl, i32, 3, 2, 2, false, |x: i32| x as i64);
// @unit name=sort_impl_i32_4_2_none_nl props=C10 kind=bounded bound=4_valid_2_null_limit_none_nulls_last fns=sort_impl tier=thorough mem=2 timeout=900 note=not_confirmed_under_load
sort_impl_unit!(sort_impl_i32_4_2_none_nl, i32, 4, 2, -1, false, |x: i32| x as i64);
// @unit name=sort_impl_i32_4_2_l3_nf props=C10 kind=bounded bound=4_valid_2_null_limit_3_nulls_first fns=sort_impl tier=thorough mem=2 timeout=900 note=not_confirmed_under_load
sort_impl_unit!(sort_impl_i32_4_2_l3_nf, i32, 4, 2, 3, true, |x: i32| x as i64);
// @unit name=sort_impl_i32_4_2_l5_nf props=C10 kind=bounded bound=4_valid_2_null_limit_5_nulls_first fns=sort_impl tier=thorough mem=2 timeout=900 note=not_confirmed_under_load
sort_impl_unit!(sort_impl_i32_4_2_l5_nf, i32, 4, 2, 5, true, |x: i32| x as i64);
// @unit name=sort_impl_i32_4_2_l5_nl props=C10 kind=bounded bound=4_valid_2_null_limit_5_nulls_last fns=sort_impl tier=thorough mem=2 timeout=900 note=not_confirmed_under_load
sort_impl_unit!(sort_impl_i32_4_2_l5_nl, i32, 4, 2, 5, false, |x: i32| x as i64);
// @unit name=sort_impl_i32_4_2_l4_nf props=C10 kind=bounded bound=4_valid_2_null_limit_4_nulls_first fns=sort_impl tier=thorough mem=2 timeout=900 note=not_confirmed_under_load
sort_impl_unit!(sort_impl_i32_4_2_l4_nf, i32, 4, 2, 4, true, |x: i32| x as i64);
// @unit name=sort_impl_i32_4_0_none_nf props=C10 kind=bounded bound=4_valid_0_null_limit_none_nulls_first fns=sort_impl tier=thorough mem=2 timeout=900 note=not_confirmed_under_load
sort_impl_unit!(sort_impl_i32_4_0_none_nf, i32, 4, 0, -1, true, |x: i32| x as i64);
// @unit name=sort_impl_i32_4_0_l2_nf props=C10 kind=bounded bound=4_valid_0_null_limit_2_nulls_first fns=sort_impl tier=thorough mem=2 timeout=900 note=not_confirmed_under_load
sort_impl_unit!(sort_impl_i32_4_0_l2_nf, i32, 4, 0, 2, true, |x: i32| x as i64);
// @unit name=sort_impl_i32_4_0_l2_nl props=C10 kind=bounded bound=4_valid_0_null_limit_2_nulls_last fns=sort_impl tier=thorough mem=2 timeout=900 note=not_confirmed_under_load
sort_impl_unit!(sort_impl_i32_4_0_l2_nl, i32, 4, 0, 2, false, |x: i32| x as i64);
// @unit name=sort_impl_i32_4_0_l4_nl props=C10 kind=bounded bound=4_valid_0_null_limit_4_nulls_last fns=sort_impl tier=thorough mem=2 timeout=900 note=not_confirmed_under_load
sort_impl_unit!(sort_impl_i32_4_0_l4_nl, i32, 4, 0, 4, false, |x: i32| x as i64);
// @unit name=sort_impl_i32_0_2_none_nf props=C10 kind=bounded bound=0_valid_2_null_limit_none_nulls_first fns=sort_impl mem=2 timeout=900 tier=thorough note=not_confirmed_under_load
sort_impl_unit!(sort_impl_i32_0_2_none_nf, i32, 0, 2, -1, true, |x: i32| x as i64);
// @unit name=sort_impl_i32_0_2_l1_nl props=C10 kind=bounded bound=0_valid_2_null_limit_1_nulls_last fns=sort_impl mem=2 timeout=900 tier=thorough note=not_confirmed_under_load
sort_impl_unit!(sort_impl_i32_0_2_l1_nl, i32, 0, 2, 1, false, |x: i32| x as i64);
// @unit name=sort_impl_i32_0_2_l1_nf props=C10 kind=bounded bound=0_valid_2_null_limit_1_nulls_first fns=sort_impl tier=thorough mem=2 timeout=900 note=not_confirmed_under_load
sort_impl_unit!(sort_impl_i32_0_2_l1_nf, i32, 0, 2, 1, true, |x: i32| x as i64);
// @unit name=sort_impl_i32_0_0_none_nf props=C10 kind=bounded bound=0_valid_0_null_limit_none_nulls_first fns=sort_impl mem=2 timeout=900
sort_impl_unit!(sort_impl_i32_0_0_none_nf, i32, 0, 0, -1, true, |x: i32| x as i64);
// @unit name=sort_impl_i32_0_0_l3_nl props=C10 kind=bounded bound=0_valid_0_null_limit_3_nulls_last fns=sort_impl tier=thorough mem=2 timeout=900 note=not_confirmed_under_load
sort_impl_unit!(sort_impl_i32_0_0_l3_nl, i32, 0, 0, 3, false, |x: i32| x as i64);
// @unit name=sort_impl_i32_1_1_l1_nf props=C10 kind=bounded bound=1_valid_1_null_limit_1_nulls_first fns=sort_impl mem=2 timeout=900 tier=thorough note=not_confirmed_under_load
sort_impl_unit!(sort_impl_i32_1_1_l1_nf, i32, 1, 1, 1, true, |x: i32| x as i64);
// @unit name=sort_impl_i32_1_1_l1_nl props=C10 kind=bounded bound=1_valid_1_null_limit_1_nulls_last fns=sort_impl mem=2 timeout=900 tier=thorough note=not_confirmed_under_load
sort_impl_unit!(sort_impl_i32_1_1_l1_nl, i32, 1, 1, 1, false, |x: i32| x as i64);
// @unit name=sort_impl_i32_1_1_none_nf props=C10 kind=bounded bound=1_valid_1_null_limit_none_nulls_first fns=sort_impl tier=thorough mem=2 timeout=900 note=not_confirmed_under_load
sort_impl_unit!(sort_impl_i32_1_1_none_nf, i32, 1, 1, -1, true, |x: i32| x as i64);
// @unit name=sort_impl_i32_2_1_l2_nf props=C10 kind=bounded bound=2_valid_1_null_limit_2_nulls_first fns=sort_impl mem=2 timeout=900 tier=thorough note=not_confirmed_under_load
sort_impl_unit!(sort_impl_i32_2_1_l2_nf, i32, 2, 1, 2, true, |x: i32| x as i64);
// @unit name=sort_impl_i32_2_1_l2_nl props=C10 kind=bounded bound=2_valid_1_null_limit_2_nulls_last fns=sort_impl mem=2 timeout=900 tier=thorough note=not_confirmed_under_load
sort_impl_unit!(sort_impl_i32_2_1_l2_nl, i32, 2, 1, 2, false, |x: i32| x as i64);
// @unit name=sort_impl_i32_2_0_l1_nf props=C10 kind=bounded bound=2_valid_0_null_limit_1_nulls_first fns=sort_impl mem=2 timeout=900 tier=thorough note=not_confirmed_under_load
sort_impl_unit!(sort_impl_i32_2_0_l1_nf, i32, 2, 0, 1, true, |x: i32| x as i64);
// @unit name=sort_impl_f32_3_1_none_nl props=C10 kind=bounded bound=3_valid_1_null_limit_none_nulls_last fns=sort_impl mem=2 timeout=900 tier=thorough note=not_confirmed_under_load
sort_impl_unit!(sort_impl_f32_3_1_none_nl, f32, 3, 1, -1, false, |x: f32| key32(x.to_bits()));
// @unit name=sort_impl_f32_3_1_l2_nf props=C10 kind=bounded bound=3_valid_1_null_limit_2_nulls_first fns=sort_impl mem=2 timeout=900
sort_impl_unit!(sort_impl_f32_3_1_l2_nf, f32, 3, 1, 2, true, |x: f32| key32(x.to_bits()));
// @unit name=sort_impl_f32_3_1_l3_nf props=C10 kind=bounded bound=3_valid_1_null_limit_3_nulls_first fns=sort_impl tier=thorough mem=2 timeout=900 note=not_confirmed_under_load
sort_impl_unit!(sort_impl_f32_3_1_l3_nf, f32, 3, 1, 3, true, |x: f32| key32(x.to_bits()));
// @unit name=sort_impl_f32_2_2_l3_nl props=C10 kind=bounded bound=2_valid_2_null_limit_3_nulls_last fns=sort_impl tier=thorough mem=2 timeout=900 note=not_confirmed_under_load
sort_impl_unit!(sort_impl_f32_2_2_l3_nl, f32, 2, 2, 3, false, |x: f32| key32(x.to_bits()));

fn mk_i32<const N: usize>(v: [i32; N], nulls: Option<NullBuffer>) -> Int32Array {
    match Int32Array::try_new(ScalarBuffer::from(v.to_vec()), nulls) {
        Ok(a) => a,
        Err(e) => { std::mem::forget(e); unreachable!() }
    }
}
/// N-slot validity buffer over symbolic bytes (bits beyond N are garbage)
fn nulls_n<const NB: usize>(bytes: [u8; NB], n: usize) -> NullBuffer {
    NullBuffer::new(BooleanBuffer::new(Buffer::from(bytes.to_vec()), 0, n))
}

// Contract (C10): partition_validity(array) on an array of CONCRETE length N with a symbolic validity bitmap
// (or no null buffer): returns (valid, nulls) such that both lists are strictly ascending, every index in
// `valid` is < N and has its validity bit set, every index in `nulls` is < N and has it cleared, and
// valid.len() + nulls.len() == N -- i.e. the two lists are disjoint, sorted, and cover 0..N exactly.
// Reaches both the `null_count == 0` fast path and partition_validity_scan (set_indices_u32 on the bitmap
// and on its complement). The array (contains DataType) is forgotten.
fn part_validity<const N: usize, const NB: usize, const WITH_NULLS: bool>() {
    let bytes: [u8; NB] = kani::any();
    let arr = mk_i32([0i32; N], if WITH_NULLS { Some(nulls_n(bytes, N)) } else { None });
    let (valid, nulls) = partition_validity(&arr);
    assert!(valid.len() + nulls.len() == N);
    let is_set = |i: usize| !WITH_NULLS || bit(&bytes, i);
    let mut k = 0;
    while k < N {
        if k < valid.len() {
            let v = valid[k] as usize;
            assert!(v < N && is_set(v));
            if k > 0 { assert!(valid[k - 1] < valid[k]); }
        }
        if k < nulls.len() {
            let v = nulls[k] as usize;
            assert!(v < N && !is_set(v));
            if k > 0 { assert!(nulls[k - 1] < nulls[k]); }
        }
        k += 1;
    }
    kani::cover!(N == 0 || !WITH_NULLS || nulls.len() == N);
    kani::cover!(N == 0 || !WITH_NULLS || valid.len() == N);            // null buffer present, no null: fast path
    kani::cover!(N < 2 || !WITH_NULLS || (nulls.len() > 0 && valid.len() > 0 && nulls[0] == 0 && valid[valid.len() - 1] as usize == N - 1));
    std::mem::forget(arr);
}
macro_rules! part_validity_unit {
    ($name:ident, $n:expr, $wn:expr) => {
        #[kani::proof]
        #[kani::stub(alloc::fmt::format, stub_format)]
        fn $name() { part_validity::<$n, { ($n + 7) / 8 + 1 }, $wn>() }
    };
}
// @unit name=partition_validity_0 props=C10 kind=bounded bound=len_0 fns=partition_validity,partition_validity_scan mem=3 timeout=900 tier=thorough note=not_confirmed_under_load
part_validity_unit!(partition_validity_0, 0, true);
// @unit name=partition_validity_1 props=C10 kind=bounded bound=len_1 fns=partition_validity,partition_validity_scan mem=3 timeout=900 tier=thorough note=not_confirmed_under_load
part_validity_unit!(partition_validity_1, 1, true);
// @unit name=partition_validity_3_nonulls props=C10 kind=bounded bound=len_3_no_null_buffer fns=partition_validity,partition_validity_scan mem=3 timeout=900
part_validity_unit!(partition_validity_3_nonulls, 3, false);
// @unit name=partition_validity_7 props=C10 kind=bounded bound=len_7 fns=partition_validity,partition_validity_scan mem=3 timeout=900 tier=thorough note=not_confirmed_under_load
part_validity_unit!(partition_validity_7, 7, true);
// @unit name=partition_validity_8 props=C10 kind=bounded bound=len_8 fns=partition_validity,partition_validity_scan mem=3 timeout=900 tier=thorough note=not_confirmed_under_load
part_validity_unit!(partition_validity_8, 8, true);
// @unit name=partition_validity_9 props=C10 kind=bounded bound=len_9 fns=partition_validity,partition_validity_scan mem=3 timeout=900 tier=thorough note=not_confirmed_under_load
part_validity_unit!(partition_validity_9, 9, true);
// @unit name=partition_validity_10 props=C10 kind=bounded bound=len_10 fns=partition_validity,partition_validity_scan mem=3 timeout=900 tier=thorough note=not_confirmed_under_load
part_validity_unit!(partition_validity_10, 10, true);
// @unit name=partition_validity_63 props=C10 kind=bounded bound=len_63 fns=partition_validity,partition_validity_scan tier=thorough mem=3 timeout=900 note=not_confirmed_under_load
part_validity_unit!(partition_validity_63, 63, true);
// @unit name=partition_validity_64 props=C10 kind=bounded bound=len_64 fns=partition_validity,partition_validity_scan tier=thorough mem=3 timeout=900 note=not_confirmed_under_load
part_validity_unit!(partition_validity_64, 64, true);
// @unit name=partition_validity_65 props=C10 kind=bounded bound=len_65 fns=partition_validity,partition_validity_scan tier=thorough mem=3 timeout=900 note=not_confirmed_under_load
part_validity_unit!(partition_validity_65, 65, true);
// @unit name=partition_validity_70 props=C10 kind=bounded bound=len_70 fns=partition_validity,partition_validity_scan tier=thorough mem=3 timeout=900 note=not_confirmed_under_load
part_validity_unit!(partition_validity_70, 70, true);
// @unit name=partition_validity_70_nonulls props=C10 kind=bounded bound=len_70_no_null_buffer fns=partition_validity,partition_validity_scan tier=thorough mem=3 timeout=900 note=not_confirmed_under_load
part_validity_unit!(partition_validity_70_nonulls, 70, false);
