// Kani contract harnesses for /repo/arrow-ord/src/rank.rs (child module: sees private items via super::)
use super::*;
#[path = "/verif/kani/support/spec.rs"]
mod spec;
use spec::*;
use arrow_buffer::{BooleanBuffer, Buffer};


// ---------------------------------------------------------------------------------------------------------
// CONTRACT STUB for std's unstable sort engine `core::slice::sort::unstable::sort(v, is_less)` (the function
// behind `<[T]>::sort_unstable_by`, which rank_impl calls directly): ensures `v` is a permutation of its old
// contents and no later element is strictly less than an earlier one under `is_less`. Built as a
// nondeterministic Fisher-Yates shuffle (swaps only) followed by kani::assume of sortedness. Std is trusted.
// ---------------------------------------------------------------------------------------------------------
fn stub_core_sort<T, F>(v: &mut [T], is_less: &mut F)
where
    F: FnMut(&T, &T) -> bool,
{
    let n = v.len();
    let mut i = 0;
    while i < n {
        let j: usize = kani::any();
        kani::assume(i <= j && j < n);
        v.swap(i, j);
        i += 1;
    }
    let mut i = 0;
    while i < n {
        let mut j = i + 1;
        while j < n {
            kani::assume(!is_less(&v[j], &v[i]));
            j += 1;
        }
        i += 1;
    }
}

/// slot order under SortOptions (C10): null vs null Equal; null vs value Less iff nulls_first; values by key,
/// reversed iff descending
fn spec_cmp_opt<K: Ord>(a: Option<K>, b: Option<K>, o: SortOptions) -> Ordering {
    match (a, b) {
        (None, None) => Ordering::Equal,
        (None, Some(_)) => if o.nulls_first { Ordering::Less } else { Ordering::Greater },
        (Some(_), None) => if o.nulls_first { Ordering::Greater } else { Ordering::Less },
        (Some(x), Some(y)) => if o.descending { y.cmp(&x) } else { x.cmp(&y) },
    }
}

// Contract (C10): rank, as documented ("rank = position in the sorted order; equal values are assigned the
// highest of their ranks, leaving gaps"; doc example [foo, null, foo, null, bar] -> [5, 2, 5, 2, 3]):
//     rank[i] == #{ j < len : slot j does not sort after slot i }   under the slot order of `options`
// (nulls per nulls_first, values by the native total order, reversed iff descending) -- an order-theoretic
// definition independent of the sort. Checked for rank_impl called as primitive_rank calls it (compare =
// T::compare, eq = T::is_eq) on N slots whose validity pattern MASK is concrete (it sizes `valid`), values and
// both option flags symbolic. Assumption: std's sort engine meets the contract stated at stub_core_sort.
macro_rules! rank_impl_unit {
    ($name:ident, $t:ty, $n:expr, $mask:expr, $key:expr) => {
        #[kani::proof]
        #[kani::stub(core::slice::sort::unstable::sort, stub_core_sort)]
        fn $name() {
            const N: usize = $n;
            const MASK: u32 = $mask;
            let vals: [$t; N] = kani::any();
            let mut valid: Vec<($t, u32)> = Vec::with_capacity(N);
            let mut k = 0;
            while k < N { if (MASK >> k) & 1 == 1 { valid.push((vals[k], k as u32)); } k += 1; }
            let options = SortOptions { descending: kani::any(), nulls_first: kani::any() };
            let out = rank_impl(N, valid, options, <$t as ArrowNativeTypeOp>::compare, <$t as ArrowNativeTypeOp>::is_eq);
            assert!(out.len() == N);
            let key = $key;
            let slot = |i: usize| if (MASK >> i) & 1 == 1 { Some(key(vals[i])) } else { None };
            let mut i = 0;
            while i < N {
                let mut cnt = 0u32;
                let mut j = 0;
                while j < N {
                    if spec_cmp_opt(slot(j), slot(i), options) != Ordering::Greater { cnt += 1; }
                    j += 1;
                }
                assert!(out[i] == cnt);
                i += 1;
            }
            kani::cover!(options.descending && options.nulls_first);
            kani::cover!(!options.descending && !options.nulls_first);
            kani::cover!(N < 2 || MASK & 3 != 3 || (out[0] == out[1]));                 // tie shares the max rank
            kani::cover!(N < 2 || MASK & 3 != 3 || (out[0] == 1 && options.descending)); // strict minimum
        }
    };
}
// @unit name=rank_impl_i32_0 props=C10 kind=bounded bound=0_slots fns=rank_impl timeout=600 tier=thorough note=not_confirmed_under_load
rank_impl_unit!(rank_impl_i32_0, i32, 0, 0, |x: i32| x as i64);
// @unit name=rank_impl_i32_1_null props=C10 kind=bounded bound=1_slot_null fns=rank_impl timeout=600 tier=thorough note=not_confirmed_under_load
rank_impl_unit!(rank_impl_i32_1_null, i32, 1, 0b0, |x: i32| x as i64);
// @unit name=rank_impl_i32_2 props=C10 kind=bounded bound=2_slots_all_valid fns=rank_impl timeout=600 tier=thorough note=not_confirmed_under_load
rank_impl_unit!(rank_impl_i32_2, i32, 2, 0b11, |x: i32| x as i64);
// @unit name=rank_impl_i32_3 props=C10 kind=bounded bound=3_slots_all_valid fns=rank_impl timeout=600 tier=thorough note=not_confirmed_under_load
rank_impl_unit!(rank_impl_i32_3, i32, 3, 0b111, |x: i32| x as i64);
// @unit name=rank_impl_i32_3_mid_null props=C10 kind=bounded bound=3_slots_validity_101 fns=rank_impl timeout=600 tier=thorough note=not_confirmed_under_load
rank_impl_unit!(rank_impl_i32_3_mid_null, i32, 3, 0b101, |x: i32| x as i64);
// @unit name=rank_impl_i32_4 props=C10 kind=bounded bound=4_slots_all_valid fns=rank_impl timeout=900 tier=thorough note=not_confirmed_under_load
rank_impl_unit!(rank_impl_i32_4, i32, 4, 0b1111, |x: i32| x as i64);
// @unit name=rank_impl_i32_4_two_nulls props=C10 kind=bounded bound=4_slots_validity_0110 fns=rank_impl timeout=900 tier=thorough note=not_confirmed_under_load
rank_impl_unit!(rank_impl_i32_4_two_nulls, i32, 4, 0b0110, |x: i32| x as i64);
// @unit name=rank_impl_i32_4_all_null props=C10 kind=bounded bound=4_slots_all_null fns=rank_impl timeout=600 tier=thorough note=not_confirmed_under_load
rank_impl_unit!(rank_impl_i32_4_all_null, i32, 4, 0b0000, |x: i32| x as i64);
// @unit name=rank_impl_f32_3 props=C10 kind=bounded bound=3_slots_all_valid fns=rank_impl timeout=900 tier=thorough note=not_confirmed_under_load
rank_impl_unit!(rank_impl_f32_3, f32, 3, 0b111, |x: f32| key32(x.to_bits()));
// @unit name=rank_impl_f32_4_one_null props=C10 kind=bounded bound=4_slots_validity_1101 fns=rank_impl tier=thorough timeout=900 note=not_confirmed_under_load
rank_impl_unit!(rank_impl_f32_4_one_null, f32, 4, 0b1101, |x: f32| key32(x.to_bits()));

// Contract (C10): primitive_rank(values, nulls, options) -- the typed entry point under `rank` -- computes the
// same documented rank from a value slice and an optional validity bitmap: N concrete, values / validity bits
// / options symbolic; a null buffer without any null takes the `filter(null_count > 0)` -> None path.
macro_rules! prim_rank_unit {
    ($name:ident, $n:expr, $with_nulls:expr) => {
        #[kani::proof]
        #[kani::stub(core::slice::sort::unstable::sort, stub_core_sort)]
        #[kani::stub(alloc::fmt::format, stub_format)]
        fn $name() {
            const N: usize = $n;
            let vals: [i32; N] = kani::any();
            let vb: u8 = kani::any();
            let nb = NullBuffer::new(BooleanBuffer::new(Buffer::from(vec![vb]), 0, N));
            let options = SortOptions { descending: kani::any(), nulls_first: kani::any() };
            let out = primitive_rank(&vals[..], if $with_nulls { Some(&nb) } else { None }, options);
            assert!(out.len() == N);
            let slot = |i: usize| if !$with_nulls || (vb >> i) & 1 == 1 { Some(vals[i]) } else { None };
            let mut i = 0;
            while i < N {
                let mut cnt = 0u32;
                let mut j = 0;
                while j < N {
                    if spec_cmp_opt(slot(j), slot(i), options) != Ordering::Greater { cnt += 1; }
                    j += 1;
                }
                assert!(out[i] == cnt);
                i += 1;
            }
            kani::cover!(!$with_nulls || (slot(0).is_none() && slot(1).is_some() && options.nulls_first && out[0] == 1));
            kani::cover!(!$with_nulls || (slot(0).is_none() && !options.nulls_first && out[0] == N as u32));
            kani::cover!(!$with_nulls || (vb & 7 == 7));
            kani::cover!(N < 2 || (slot(0).is_some() && slot(1).is_some() && out[0] == out[1]));
        }
    };
}
// @unit name=primitive_rank_3 props=C10 kind=bounded bound=3_values_no_null_buffer fns=primitive_rank,rank_impl timeout=900 tier=thorough note=not_confirmed_under_load
prim_rank_unit!(primitive_rank_3, 3, false);
// @unit name=primitive_rank_3_nulls props=C10 kind=bounded bound=3_values_symbolic_validity fns=primitive_rank,rank_impl tier=thorough mem=4 timeout=900 note=not_confirmed_under_load
prim_rank_unit!(primitive_rank_3_nulls, 3, true);
