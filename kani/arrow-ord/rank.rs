// Kani contract harnesses for /repo/arrow-ord/src/rank.rs (child module: sees private items via super::)
