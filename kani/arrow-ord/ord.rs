// Kani contract harnesses for /repo/arrow-ord/src/ord.rs (child module: sees private items via super::)
