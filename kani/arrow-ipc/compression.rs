// Kani contract harnesses for /repo/arrow-ipc/src/compression.rs (child module: sees private items via super::)
use super::*;
#[path = "/verif/kani/support/spec.rs"]
mod spec;
use spec::*;

// Contract (C04, C08-style totality): read_uncompressed_size(buffer) for arbitrary bytes of any length
// 0..=12: Ok(v) <=> buffer.len() >= 8, and then v is the little-endian i64 of the first 8 bytes; a
// shorter buffer is an Err, never a panic or an out-of-bounds read. (The function reads only the first
// 8 bytes, so lengths above 12 add nothing.)
// @unit name=read_uncompressed_size_prefix props=C04 kind=bounded bound=buffer_len<=12 fns=read_uncompressed_size tier=quick
#[kani::proof]
#[kani::unwind(10)]
#[kani::stub(alloc::fmt::format, stub_format)]
fn read_uncompressed_size_prefix() {
    let bytes: [u8; 12] = kani::any();
    let len: usize = kani::any();
    kani::assume(len <= 12);
    let r = read_uncompressed_size(&bytes[..len]);
    assert!(r.is_ok() == (len >= 8));
    if let Ok(v) = &r {
        let mut want: u64 = 0;
        let mut i = 0;
        while i < 8 {
            want |= (bytes[i] as u64) << (8 * i);
            i += 1;
        }
        assert!(*v == want as i64);
    }
    kani::cover!(r.is_ok() && len == 8);
    kani::cover!(r.is_err() && len == 7);
    kani::cover!(matches!(r, Ok(-1)));
    std::mem::forget(r);
}

// Contract (C04): decompress_to_buffer(input) dispatch on the 8-byte length prefix, for arbitrary input
// of 0..=12 bytes and either codec: shorter than 8 bytes => Err; prefix 0 => Ok(empty buffer);
// prefix -1 ("not compressed") => Ok(exactly the bytes after the prefix); any other negative prefix =>
// Err (never a huge allocation or a panic). A positive prefix goes to the codec engine (not decided
// here; the default build has no codec feature and returns Err).
// @unit name=decompress_prefix_dispatch props=C04 kind=bounded bound=input_len<=12 fns=CompressionCodec::decompress_to_buffer,read_uncompressed_size tier=quick
#[kani::proof]
#[kani::unwind(10)]
#[kani::stub(alloc::fmt::format, stub_format)]
fn decompress_prefix_dispatch() {
    let bytes: [u8; 12] = kani::any();
    let len: usize = kani::any();
    kani::assume(len <= 12);
    let input = Buffer::from_slice_ref(&bytes).slice_with_length(0, len);
    let codec = if kani::any() { CompressionCodec::Lz4Frame } else { CompressionCodec::Zstd(kani::any()) };
    let mut ctx = DecompressionContext::new();
    let r = codec.decompress_to_buffer(&input, &mut ctx);
    let prefix = i64::from_le_bytes([bytes[0], bytes[1], bytes[2], bytes[3], bytes[4], bytes[5], bytes[6], bytes[7]]);
    if len < 8 {
        assert!(r.is_err());
    } else if prefix == 0 {
        assert!(r.as_ref().is_ok_and(|b| b.is_empty()));
    } else if prefix == -1 {
        match &r {
            Ok(b) => {
                assert!(b.len() == len - 8);
                let i: usize = kani::any();
                if i < len - 8 { assert!(b.as_slice()[i] == bytes[8 + i]); }
            }
            Err(_) => assert!(false),
        }
    } else if prefix < 0 {
        assert!(r.is_err());
    }
    kani::cover!(len == 12 && prefix == -1);
    kani::cover!(len == 8 && prefix == 0);
    kani::cover!(len >= 8 && prefix < -1);
    kani::cover!(len >= 8 && prefix > 0);
    std::mem::forget(r);
    std::mem::forget(ctx);
}
