// Kani contract harnesses for /repo/arrow-ipc/src/compression.rs (child module: sees private items via super::)
