// Kani contract harnesses for /repo/arrow-ipc/src/reader/stream.rs (child module: sees private items via super::)
