// Kani contract harnesses for /repo/arrow-ipc/src/reader/stream.rs (child module: sees private items via super::)
use super::*;
#[path = "/verif/kani/support/spec.rs"]
mod spec;
use spec::*;

fn fresh() -> StreamDecoder {
    StreamDecoder {
        schema: None,
        dictionaries: HashMap::new(),
        state: DecoderState::default(),
        buf: MutableBuffer::new(0),
        require_alignment: false,
        skip_validation: UnsafeFlag::new(),
    }
}

/// feed bytes[from..to] as one chunk; the chunk must be consumed completely and yield no batch
fn feed(d: &mut StreamDecoder, bytes: &[u8; 8], from: usize, to: usize) {
    let mut b = Buffer::from_slice_ref(bytes).slice_with_length(from, to - from);
    let r = d.decode(&mut b);
    assert!(matches!(r, Ok(None)));
    assert!(b.is_empty());
    std::mem::forget(r);
}

/// Stub for MessageBuffer::try_new (the flatbuffers verifier). In these harnesses the input ends exactly
/// after the prefix, so by the contract no message is ever assembled; the stub makes any such attempt an
/// Err, which `feed` turns into a harness failure (it asserts Ok(None)). It only removes code that the
/// contract says is unreachable, and fails loudly if that is wrong.
fn stub_no_message(_buf: Buffer) -> Result<MessageBuffer, ArrowError> {
    Err(ArrowError::IpcError(String::new()))
}

// Contract (C14): the 4/8-byte message prefix of the IPC stream format is assembled identically for every
// way of cutting it into chunks. Prefix = continuation marker FF FF FF FF followed by a little-endian u32
// metadata length s (all 2^32 values symbolic). For the cut points of the instance (chunk boundaries
// inside the 8 bytes; empty chunks allowed; [8] is the one-shot case and [1,2,..,8] one byte at a time),
// after the 8 bytes the decoder is in state Message{size = s} (s != 0) or Finished (s == 0: end-of-stream
// marker), has consumed every byte, produced no batch and no error; finish() then succeeds iff s == 0.
// Since every instance is compared with the same closed-form result, all chunkings agree with each other
// and with the one-shot read. The prefix logic is reached without any flatbuffer message (the last chunk
// ends exactly after the prefix). Stubs: alloc::fmt::format; MessageBuffer::try_new (see stub_no_message).
// Cut points are concrete per instance: with symbolic cut points CBMC
// cannot exclude that bytes are left over and has to encode the flatbuffer verifier (measured: timeout 400 s).
macro_rules! stream_prefix_continuation {
    ($name:ident, $cuts:expr) => {
        #[kani::proof]
        #[kani::unwind(10)]
        #[kani::stub(alloc::fmt::format, stub_format)]
        #[kani::stub(crate::convert::MessageBuffer::try_new, stub_no_message)]
        fn $name() {
            let s: [u8; 4] = kani::any();
            let bytes = [0xFF, 0xFF, 0xFF, 0xFF, s[0], s[1], s[2], s[3]];
            let cuts = $cuts;
            let mut d = fresh();
            let mut from = 0;
            let mut c = 0;
            while c < cuts.len() {
                feed(&mut d, &bytes, from, cuts[c]);
                from = cuts[c];
                c += 1;
            }
            assert!(from == 8);
            let size = u32::from_le_bytes(s);
            match &d.state {
                DecoderState::Message { size: got } => assert!(size != 0 && *got == size),
                DecoderState::Finished => assert!(size == 0),
                _ => assert!(false),
            }
            let f = d.finish();
            assert!(f.is_ok() == (size == 0));
            kani::cover!(size == 0x0102_0304);
            kani::cover!(size == 0);
            kani::cover!(size == u32::MAX);          // a second FF FF FF FF is a length, not another marker
            std::mem::forget(f);
            std::mem::forget(d);
        }
    };
}
// @unit name=stream_prefix_cont_oneshot props=C14 kind=bounded bound=chunking=[8]_all_lengths fns=StreamDecoder::decode,StreamDecoder::finish timeout=900 mem=4 tier=thorough note=not_confirmed_not_run
stream_prefix_continuation!(stream_prefix_cont_oneshot, [8usize]);
// @unit name=stream_prefix_cont_bytewise props=C14 kind=bounded bound=chunking=one_byte_at_a_time_all_lengths fns=StreamDecoder::decode,StreamDecoder::finish timeout=900 mem=4 tier=thorough note=not_confirmed_killed_or_failed_see_report
stream_prefix_continuation!(stream_prefix_cont_bytewise, [1usize, 2, 3, 4, 5, 6, 7, 8]);
// @unit name=stream_prefix_cont_3_5 props=C14 kind=bounded bound=chunking=[3,5,8]_all_lengths fns=StreamDecoder::decode,StreamDecoder::finish timeout=900 mem=4 tier=thorough note=not_confirmed_killed_or_failed_see_report
stream_prefix_continuation!(stream_prefix_cont_3_5, [3usize, 5, 8]);
// @unit name=stream_prefix_cont_0_4_4 props=C14 kind=bounded bound=chunking=[0,4,4,8]_with_empty_chunks_all_lengths fns=StreamDecoder::decode,StreamDecoder::finish timeout=900 mem=4 tier=thorough note=not_confirmed_not_run
stream_prefix_continuation!(stream_prefix_cont_0_4_4, [0usize, 4, 4, 8]);

// Contract (C14, C18): legacy prefix (pre-0.15 streams: no continuation marker): 4 bytes s != FF FF FF FF
// are the little-endian metadata length; same statement for the cut points of the instance. Additionally
// a stream cut inside the prefix (CUT bytes delivered, 0 < CUT < 4) is not accepted by finish()
// (truncated stream => error), while an empty stream is.
macro_rules! stream_prefix_legacy {
    ($name:ident, $cut:expr) => {
        #[kani::proof]
        #[kani::unwind(10)]
        #[kani::stub(alloc::fmt::format, stub_format)]
        #[kani::stub(crate::convert::MessageBuffer::try_new, stub_no_message)]
        fn $name() {
            const CUT: usize = $cut;
            let s: [u8; 4] = kani::any();
            kani::assume(s != [0xFF, 0xFF, 0xFF, 0xFF]);
            let bytes = [s[0], s[1], s[2], s[3], 0, 0, 0, 0];
            let mut d = fresh();
            feed(&mut d, &bytes, 0, CUT);
            let f = d.finish();
            assert!(f.is_ok() == (CUT == 0));            // truncated inside the prefix => error
            std::mem::forget(f);
            feed(&mut d, &bytes, CUT, 4);
            let size = u32::from_le_bytes(s);
            match &d.state {
                DecoderState::Message { size: got } => assert!(size != 0 && *got == size),
                DecoderState::Finished => assert!(size == 0),
                _ => assert!(false),
            }
            kani::cover!(size == 0x0A0B_0C0D);
            kani::cover!(size == 0);
            std::mem::forget(d);
        }
    };
}
// @unit name=stream_prefix_legacy_cut0 props=C14,C18 kind=bounded bound=chunking=[0,4]_all_lengths fns=StreamDecoder::decode,StreamDecoder::finish timeout=900 mem=4 tier=thorough note=not_confirmed_not_run
stream_prefix_legacy!(stream_prefix_legacy_cut0, 0);
// @unit name=stream_prefix_legacy_cut1 props=C14,C18 kind=bounded bound=chunking=[1,4]_all_lengths fns=StreamDecoder::decode,StreamDecoder::finish timeout=900 mem=4 tier=thorough note=not_confirmed_not_finished
stream_prefix_legacy!(stream_prefix_legacy_cut1, 1);
// @unit name=stream_prefix_legacy_cut3 props=C14,C18 kind=bounded bound=chunking=[3,4]_all_lengths fns=StreamDecoder::decode,StreamDecoder::finish timeout=900 mem=4 tier=thorough note=not_confirmed_not_run
stream_prefix_legacy!(stream_prefix_legacy_cut3, 3);
