// Kani contract harnesses for /repo/arrow-ipc/src/reader.rs (child module: sees private items via super::)
