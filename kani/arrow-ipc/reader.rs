// Kani contract harnesses for /repo/arrow-ipc/src/reader.rs (child module: sees private items via super::)
use super::*;
#[path = "/verif/kani/support/spec.rs"]
mod spec;
use spec::*;

// ---- C18 footer ----

// Contract (C18, C08): for every 10-byte file tail, read_footer_length returns Ok(n) exactly when bytes
// 4..10 are the magic "ARROW1" AND the little-endian i32 in bytes 0..4 is non-negative; n is then exactly
// that integer (no wrap-around of a negative length into a huge usize). Any other tail — a file cut
// anywhere, garbage, a negative length — is an Err, never a panic.
// (The brief words the length condition as "> 0"; the code — and the format — accept 0, which the caller
// then rejects when it parses an empty footer. The contract states ">= 0"; see REPORT.)
// Stub: alloc::fmt::format.
// @unit name=ipc_read_footer_length props=C18,C08 kind=complete fns=read_footer_length
#[kani::proof]
#[kani::stub(alloc::fmt::format, stub_format)]
fn ipc_read_footer_length() {
    let b: [u8; 10] = kani::any();
    let r = read_footer_length(b);
    let magic_ok = b[4] == 0x41 && b[5] == 0x52 && b[6] == 0x52 && b[7] == 0x4f && b[8] == 0x57 && b[9] == 0x31;
    // little-endian two's complement, computed in 64 bits
    let raw = (b[0] as i64) | (b[1] as i64) << 8 | (b[2] as i64) << 16 | (b[3] as i64) << 24;
    let len = if raw >= 1 << 31 { raw - (1 << 32) } else { raw };
    assert!(r.is_ok() == (magic_ok && len >= 0));
    if let Ok(n) = &r {
        assert!(*n as i64 == len);
    }
    kani::cover!(r.is_ok() && len == i32::MAX as i64);
    kani::cover!(r.is_ok() && len == 0);
    kani::cover!(r.is_err() && magic_ok && len == -1);
    kani::cover!(r.is_err() && !magic_ok && b[4] == 0x41 && b[5] == 0x52 && b[6] == 0x52 && b[7] == 0x4f && b[8] == 0x57);
    std::mem::forget(r);
}
