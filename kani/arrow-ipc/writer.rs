// Kani contract harnesses for /repo/arrow-ipc/src/writer.rs (child module: sees private items via super::)
