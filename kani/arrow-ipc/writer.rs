// Kani contract harnesses for /repo/arrow-ipc/src/writer.rs (child module: sees private items via super::)
use super::*;
#[path = "/verif/kani/support/spec.rs"]
mod spec;
use spec::*;
use ::std::io::Error as IoError;

// ------------------------------------------------------------------------------------------------
// scalar layout helpers
// ------------------------------------------------------------------------------------------------

// Contract (C04): pad_to_alignment(alignment, len) for every alignment IpcWriteOptions accepts
// (8, 16, 32, 64) and every len <= 2^63: the padding r is < alignment and len + r is a multiple of
// alignment (hence r is the minimal such padding). Kani pair of the Verus unit
// verus.arrow-ipc.writer.pad_to_alignment (same contract, different tool).
// @unit name=pad_to_alignment_pair props=C04 kind=complete fns=pad_to_alignment tier=quick
#[kani::proof]
fn pad_to_alignment_pair() {
    let alignment: u8 = kani::any();
    let len: usize = kani::any();
    kani::assume(alignment == 8 || alignment == 16 || alignment == 32 || alignment == 64);
    kani::assume(len <= 1usize << 63);
    let r = pad_to_alignment(alignment, len);
    assert!(r < alignment as usize);
    let total = len as u128 + r as u128;
    // modulus by each constant separately (a symbolic 64-bit divisor is out of the solver's reach)
    let rem = match alignment {
        8 => total % 8,
        16 => total % 16,
        32 => total % 32,
        _ => total % 64,
    };
    assert!(rem == 0);
    kani::cover!(alignment == 8 && r == 7);
    kani::cover!(alignment == 64 && r == 63);
    kani::cover!(r == 0 && len > 0);
    kani::cover!(len == 1usize << 63);
}

fn opts(alignment: u8, legacy: bool, v5: bool) -> IpcWriteOptions {
    IpcWriteOptions {
        alignment,
        write_legacy_ipc_format: legacy,
        metadata_version: if v5 { crate::MetadataVersion::V5 } else { crate::MetadataVersion::V4 },
        batch_compression_type: None,
        batch_compression_level: None,
        dictionary_handling: DictionaryHandling::default(),
    }
}

// Contract (C04): MetadataLayout::new(metadata_len, options) — the framing arithmetic of every IPC
// message — for alignment in {8,16,32,64}, both prefix sizes (legacy 4 bytes / continuation 8 bytes)
// and every metadata_len <= 2^40: prefix + metadata + padding is a multiple of the alignment,
// padded_header_len == prefix + padded_metadata_len, padded_metadata_len == metadata_len +
// metadata_padding, and the padding is minimal (< alignment).
// @unit name=metadata_layout props=C04 kind=complete fns=MetadataLayout::new tier=quick
#[kani::proof]
fn metadata_layout() {
    let alignment: u8 = kani::any();
    kani::assume(alignment == 8 || alignment == 16 || alignment == 32 || alignment == 64);
    let legacy: bool = kani::any();
    let o = opts(alignment, legacy, !legacy && kani::any());
    let metadata_len: usize = kani::any();
    kani::assume(metadata_len <= 1usize << 40);
    let l = MetadataLayout::new(metadata_len, &o);
    let prefix = if legacy { 4 } else { 8 };
    assert!(l.padded_header_len == prefix + l.padded_metadata_len);
    assert!(l.padded_metadata_len == metadata_len + l.metadata_padding);
    assert!(l.metadata_padding < alignment as usize);
    let rem = match alignment {
        8 => l.padded_header_len % 8,
        16 => l.padded_header_len % 16,
        32 => l.padded_header_len % 32,
        _ => l.padded_header_len % 64,
    };
    assert!(rem == 0);
    kani::cover!(legacy && l.metadata_padding == 0);
    kani::cover!(!legacy && l.metadata_padding == 63);
    std::mem::forget(o);
}

// Contract (C04): get_buffer_element_width(spec) is the byte width of a FixedWidth spec and 0 for
// every other spec (truth table over the four BufferSpec variants, all widths/alignments).
// @unit name=buffer_element_width_table props=C04 kind=complete fns=get_buffer_element_width tier=quick
#[kani::proof]
fn buffer_element_width_table() {
    let w: usize = kani::any();
    let al: usize = kani::any();
    assert!(get_buffer_element_width(&BufferSpec::FixedWidth { byte_width: w, alignment: al }) == w);
    assert!(get_buffer_element_width(&BufferSpec::VariableWidth) == 0);
    assert!(get_buffer_element_width(&BufferSpec::BitMap) == 0);
    assert!(get_buffer_element_width(&BufferSpec::AlwaysNull) == 0);
    kani::cover!(w == 16);
}

// Contract (C04): buffer_need_truncate(array_offset, buffer, spec, min_length) <=> spec is not
// AlwaysNull /\ (array_offset != 0 \/ min_length < buffer.len()), for every spec variant, every
// array_offset / min_length and buffers of every length 0..=16 (a window of a 16-byte allocation).
// @unit name=buffer_need_truncate_table props=C04 kind=bounded bound=buffer_len<=16_everything_else_symbolic fns=buffer_need_truncate tier=quick
#[kani::proof]
fn buffer_need_truncate_table() {
    let store = [0u8; 16];
    let blen: usize = kani::any();
    kani::assume(blen <= 16);
    let buffer = Buffer::from_slice_ref(&store).slice_with_length(0, blen);
    let which: u8 = kani::any();
    kani::assume(which < 4);
    let spec = match which {
        0 => BufferSpec::FixedWidth { byte_width: kani::any(), alignment: kani::any() },
        1 => BufferSpec::VariableWidth,
        2 => BufferSpec::BitMap,
        _ => BufferSpec::AlwaysNull,
    };
    let array_offset: usize = kani::any();
    let min_length: usize = kani::any();
    let r = buffer_need_truncate(array_offset, &buffer, &spec, min_length);
    assert!(r == (which != 3 && (array_offset != 0 || min_length < blen)));
    kani::cover!(r && which == 0 && array_offset == 0);
    kani::cover!(!r && which == 3 && array_offset != 0);
    kani::cover!(!r && which == 1);
}

// ------------------------------------------------------------------------------------------------
// framing helpers over a nondeterministic sink (C18 / C04)
// ------------------------------------------------------------------------------------------------

/// A std::io::Write sink that records what it accepted and may fail at any call with a non-retryable
/// error. SHORT = true: every successful call accepts exactly one byte (the worst case of a short
/// write: std's write_all has to loop); SHORT = false: a successful call accepts the whole slice.
struct NondetSink<const SHORT: bool> {
    got: [u8; 96],
    n: usize,
    failed: bool,
    calls: usize,
}
impl<const SHORT: bool> NondetSink<SHORT> {
    fn new() -> Self { NondetSink { got: [0xAA; 96], n: 0, failed: false, calls: 0 } }
}
impl<const SHORT: bool> std::io::Write for NondetSink<SHORT> {
    fn write(&mut self, buf: &[u8]) -> std::io::Result<usize> {
        self.calls += 1;
        if kani::any() {
            self.failed = true;
            return Err(IoError::from(std::io::ErrorKind::Other));
        }
        let k = if SHORT { 1 } else { buf.len() };
        self.got[self.n..self.n + k].copy_from_slice(&buf[..k]);
        self.n += k;
        Ok(k)
    }
    fn flush(&mut self) -> std::io::Result<()> { Ok(()) }
}

/// The general sink: a successful call accepts any number k of bytes with 1 <= k <= offered (arbitrary
/// short writes; 0 is excluded because std's write_all turns it into WriteZero), any call may fail.
struct AnyShortSink {
    got: [u8; 16],
    n: usize,
    failed: bool,
    calls: usize,
}
impl std::io::Write for AnyShortSink {
    fn write(&mut self, buf: &[u8]) -> std::io::Result<usize> {
        self.calls += 1;
        if kani::any() {
            self.failed = true;
            return Err(IoError::from(std::io::ErrorKind::Other));
        }
        let k: usize = kani::any();
        kani::assume(k >= 1 && k <= buf.len());
        let mut i = 0;
        while i < k {
            self.got[self.n + i] = buf[i];
            i += 1;
        }
        self.n += k;
        Ok(k)
    }
    fn flush(&mut self) -> std::io::Result<()> { Ok(()) }
}

/// stub for the io::Error -> ArrowError conversion: the error *message* is not part of any contract
/// (the real conversion renders the message with Display, which drags the formatting machinery in)
fn stub_io_to_arrow(error: std::io::Error) -> ArrowError { ArrowError::IoError(String::new(), error) }

// Contract (C04, C18): write_continuation(options, metadata_len) on a sink that may short-write and
// may fail: returns Ok exactly when the sink never failed; on Ok the sink received exactly
//   [0xFF,0xFF,0xFF,0xFF] ++ le32(metadata_len)        (V5, or V4 non-legacy: 8 bytes)
//   le32(metadata_len)                                  (V4 legacy: 4 bytes)
// and nothing else; on Err what the sink received is a strict prefix of those bytes (no byte is
// reordered, duplicated or invented), and no further write is attempted after the failure.
// Stubs: alloc::fmt::format; <ArrowError as From<io::Error>>::from (message rendering only).
// @unit name=write_continuation_sink props=C04,C18 kind=complete fns=IpcMessageSinkExt::write_continuation,IpcMessageSink::write_slice timeout=900 mem=4 tier=thorough
#[kani::proof]
#[kani::unwind(10)]
#[kani::stub(alloc::fmt::format, stub_format)]
#[kani::stub(<arrow_schema::ArrowError as core::convert::From<IoError>>::from, stub_io_to_arrow)]
fn write_continuation_sink() {
    let legacy: bool = kani::any();
    let v5 = !legacy && kani::any();
    let o = opts(64, legacy, v5);
    let metadata_len: i32 = kani::any();
    let mut sink = AnyShortSink { got: [0xAA; 16], n: 0, failed: false, calls: 0 };
    let r = sink.write_continuation(&o, metadata_len);
    let le = metadata_len.to_le_bytes();
    let expect: [u8; 8] = if legacy { [le[0], le[1], le[2], le[3], 0xAA, 0xAA, 0xAA, 0xAA] } else { [0xFF, 0xFF, 0xFF, 0xFF, le[0], le[1], le[2], le[3]] };
    let total = if legacy { 4 } else { 8 };
    assert!(r.is_ok() == !sink.failed);
    if r.is_ok() { assert!(sink.n == total); } else { assert!(sink.n < total); }
    let mut i = 0;
    while i < 8 {
        if i < sink.n { assert!(sink.got[i] == expect[i]); } else { assert!(sink.got[i] == 0xAA); }
        i += 1;
    }
    kani::cover!(r.is_ok() && legacy);
    kani::cover!(r.is_ok() && !legacy && sink.calls > 1);
    kani::cover!(r.is_err() && sink.n == 3);
    std::mem::forget(r);
    std::mem::forget(o);
}

// Contract (C04, C18): write_padding(len) for every len <= 64 (PADDING holds 64 zero bytes; larger values
// are a caller error and panic on the slice index: may-reject) hands exactly `len` zero bytes to the sink
// — none when len == 0: the sink is not called at all — and returns Ok iff the sink did not fail; on
// failure nothing was accepted.
// @unit name=write_padding_sink props=C04,C18 kind=complete mayreject=1 fns=IpcMessageSinkExt::write_padding,IpcMessageSink::write_slice tier=quick
#[kani::proof]
#[kani::unwind(4)]
#[kani::stub(alloc::fmt::format, stub_format)]
#[kani::stub(<arrow_schema::ArrowError as core::convert::From<IoError>>::from, stub_io_to_arrow)]
fn write_padding_sink() {
    let len: usize = kani::any();
    let mut sink = NondetSink::<false>::new();
    let r = sink.write_padding(len);
    assert!(len <= 64);                     // reached only if the slice index did not reject
    assert!(r.is_ok() == !sink.failed);
    assert!(sink.n == if r.is_ok() { len } else { 0 });
    assert!(sink.calls == if len == 0 { 0 } else { 1 });
    let i: usize = kani::any();
    kani::assume(i < 96);
    assert!(sink.got[i] == if i < sink.n { 0 } else { 0xAA });
    kani::cover!(r.is_ok() && len == 64);
    kani::cover!(r.is_err());
    kani::cover!(len == 0);
    std::mem::forget(r);
}

// Contract (C04, C18): write_body_data(data, alignment) for alignment in {8,16,32,64} and a body of LEN
// symbolic bytes: on a sink that never fails it returns Ok(total) with total == LEN + padding, total a
// multiple of the alignment, and the sink received exactly data ++ zeros(padding) (so the returned
// length is exactly the number of bytes handed to the sink); if the sink fails at any call the error is
// returned (never Ok) and what the sink holds is a prefix of that byte string.
macro_rules! write_body_data_sink {
    ($name:ident, $len:expr) => {
        #[kani::proof]
        #[kani::unwind(4)]
        #[kani::stub(alloc::fmt::format, stub_format)]
        #[kani::stub(<arrow_schema::ArrowError as core::convert::From<IoError>>::from, stub_io_to_arrow)]
        fn $name() {
            const LEN: usize = $len;
            let data: [u8; LEN] = kani::any();
            let alignment: u8 = kani::any();
            kani::assume(alignment == 8 || alignment == 16 || alignment == 32 || alignment == 64);
            let mut sink = NondetSink::<false>::new();
            let r = sink.write_body_data(data.to_vec(), alignment);
            // least multiple of the alignment >= LEN, by constant divisors only
            let padded = match alignment {
                8 => (LEN + 7) / 8 * 8,
                16 => (LEN + 15) / 16 * 16,
                32 => (LEN + 31) / 32 * 32,
                _ => (LEN + 63) / 64 * 64,
            };
            assert!(r.is_ok() == !sink.failed);
            match &r {
                Ok(total) => { assert!(*total == padded); assert!(sink.n == padded); }
                Err(_) => assert!(sink.n == 0 || sink.n == LEN),
            }
            let i: usize = kani::any();
            kani::assume(i < 96);
            assert!(sink.got[i] == if i < sink.n { if i < LEN { data[i] } else { 0 } } else { 0xAA });
            kani::cover!(r.is_ok() && alignment == 64);
            kani::cover!(r.is_ok() && alignment == 8);
            kani::cover!(r.is_err() && (LEN == 0 || LEN % 8 == 0 || sink.n == LEN));
            std::mem::forget(r);
        }
    };
}
// @unit name=write_body_data_len5 props=C04,C18 kind=bounded bound=body_len=5 fns=IpcMessageSinkExt::write_body_data,IpcMessageSinkExt::write_padding,pad_to_alignment tier=thorough note=not_confirmed_timeout_measured
write_body_data_sink!(write_body_data_len5, 5);
// @unit name=write_body_data_len16 props=C04,C18 kind=bounded bound=body_len=16 fns=IpcMessageSinkExt::write_body_data,IpcMessageSinkExt::write_padding,pad_to_alignment tier=thorough
write_body_data_sink!(write_body_data_len16, 16);

// ------------------------------------------------------------------------------------------------
// slice re-basing helpers on ArrayData (built once with the unchecked constructor, only read, forgotten)
// ------------------------------------------------------------------------------------------------

/// monotone non-negative i32 offsets (the invariant of a valid variable-size array)
fn any_offsets<const K: usize>(max: i32) -> [i32; K] {
    let o: [i32; K] = kani::any();
    kani::assume(o[0] >= 0 && o[K - 1] <= max);
    let mut i = 1;
    while i < K {
        kani::assume(o[i - 1] <= o[i]);
        i += 1;
    }
    o
}
fn binary_data(offs: &[i32; 4], bytes: &[u8; 6], off: usize, len: usize) -> ArrayData {
    unsafe {
        ArrayData::new_unchecked(
            DataType::Binary,
            len,
            Some(0),
            None,
            off,
            vec![Buffer::from_slice_ref(offs), Buffer::from_slice_ref(bytes)],
            vec![],
        )
    }
}

// Contract (C04): reencode_offsets::<i32>(offsets, data) for a variable-size array whose physical
// offsets buffer has 4 entries (symbolic, monotone, >= 0) viewed through the slice (OFF, LEN) of the
// instance: the returned offsets have exactly LEN+1 entries, start at 0 and new[i] == old[OFF+i] −
// old[OFF]; the returned (start, len) == (old[OFF], old[OFF+LEN] − old[OFF]) — so child/value data
// sliced with (start, len) and indexed with the new offsets denotes the same element ranges.
macro_rules! reencode_i32 {
    ($name:ident, $off:expr, $len:expr, $zero:expr) => {
        #[kani::proof]
        #[kani::unwind(8)]
        #[kani::stub(alloc::fmt::format, stub_format)]
        fn $name() {
            const OFF: usize = $off;
            const LEN: usize = $len;
            let mut offs = any_offsets::<4>(i32::MAX);
            // one harness per code path (first offset of the slice == 0: zero-copy window; != 0: re-encoded copy)
            if $zero {
                let mut z = 0;
                while z <= OFF { offs[z] = 0; z += 1; }       // literal zeros (monotonicity is preserved)
            } else {
                kani::assume(offs[OFF] != 0);
            }
            let bytes = [0u8; 6];
            let data = binary_data(&offs, &bytes, OFF, LEN);
            let (new, start, len) = reencode_offsets::<i32>(&data.buffers()[0], &data);
            let n: &[i32] = new.typed_data::<i32>();
            assert!(n.len() == LEN + 1);
            assert!(n[0] == 0);
            let mut i = 0;
            while i <= LEN {
                assert!(n[i] == offs[OFF + i] - offs[OFF]);
                i += 1;
            }
            assert!(start == offs[OFF] as usize);
            assert!(len == (offs[OFF + LEN] - offs[OFF]) as usize);
            kani::cover!(LEN == 0 || offs[OFF + LEN] > offs[OFF]);
            kani::cover!(offs[OFF + LEN] == i32::MAX);
            std::mem::forget(data);
        }
    };
}
// @unit name=reencode_i32_0_3_copy props=C04 kind=bounded bound=physical_offsets=4_slice=(0,3)_first_offset!=0 fns=reencode_offsets timeout=900 mem=6 tier=thorough note=not_confirmed_not_run
reencode_i32!(reencode_i32_0_3_copy, 0, 3, false);
// @unit name=reencode_i32_1_2_copy props=C04 kind=bounded bound=physical_offsets=4_slice=(1,2)_first_offset!=0 fns=reencode_offsets timeout=900 mem=6 tier=thorough note=not_confirmed_not_run
reencode_i32!(reencode_i32_1_2_copy, 1, 2, false);
// @unit name=reencode_i32_1_2_zero props=C04 kind=bounded bound=physical_offsets=4_slice=(1,2)_first_offset==0 fns=reencode_offsets timeout=900 mem=6 tier=thorough note=not_confirmed_not_finished
reencode_i32!(reencode_i32_1_2_zero, 1, 2, true);
// @unit name=reencode_i32_2_1_copy props=C04 kind=bounded bound=physical_offsets=4_slice=(2,1)_first_offset!=0 fns=reencode_offsets timeout=900 mem=6 tier=thorough note=not_confirmed_not_run
reencode_i32!(reencode_i32_2_1_copy, 2, 1, false);
// @unit name=reencode_i32_2_0_copy props=C04 kind=bounded bound=physical_offsets=4_slice=(2,0)_first_offset!=0 fns=reencode_offsets timeout=900 mem=6 tier=thorough note=not_confirmed_not_run
reencode_i32!(reencode_i32_2_0_copy, 2, 0, false);
// @unit name=reencode_i32_0_3_zero props=C04 kind=bounded bound=physical_offsets=4_slice=(0,3)_first_offset==0 fns=reencode_offsets timeout=900 mem=6 tier=thorough note=not_confirmed_not_run
reencode_i32!(reencode_i32_0_3_zero, 0, 3, true);

// same contract for 64-bit offsets (LargeBinary / LargeList)
// @unit name=reencode_i64_1_2 props=C04 kind=bounded bound=physical_offsets=4_slice=(1,2)_first_offset!=0 fns=reencode_offsets timeout=900 mem=6 tier=thorough note=not_confirmed_not_run
#[kani::proof]
#[kani::unwind(8)]
#[kani::stub(alloc::fmt::format, stub_format)]
fn reencode_i64_1_2() {
    const OFF: usize = 1;
    const LEN: usize = 2;
    let offs: [i64; 4] = kani::any();
    kani::assume(offs[0] >= 0 && offs[0] <= offs[1] && offs[1] <= offs[2] && offs[2] <= offs[3]);
    kani::assume(offs[OFF] != 0);                 // re-encoding path (the zero-copy path is type-independent)
    let data = unsafe {
        ArrayData::new_unchecked(DataType::LargeBinary, LEN, Some(0), None, OFF, vec![Buffer::from_slice_ref(&offs), Buffer::from_slice_ref(&[0u8; 2])], vec![])
    };
    let (new, start, len) = reencode_offsets::<i64>(&data.buffers()[0], &data);
    let n: &[i64] = new.typed_data::<i64>();
    assert!(n.len() == LEN + 1);
    let mut i = 0;
    while i <= LEN {
        assert!(n[i] == offs[OFF + i] - offs[OFF]);
        i += 1;
    }
    assert!(start == offs[OFF] as usize && len == (offs[OFF + LEN] - offs[OFF]) as usize);
    kani::cover!(offs[OFF] > i32::MAX as i64 && offs[OFF + LEN] > offs[OFF]);
    std::mem::forget(data);
}

// Contract (C04): get_byte_array_buffers::<i32>(data) on a Binary array with 3 physical rows (4 symbolic
// monotone offsets into 6 symbolic bytes) seen through the slice (OFF, LEN): the returned
// [offsets', values'] denote exactly the byte strings of the slice — offsets' has LEN+1 entries starting
// at 0, values' has offsets'[LEN] bytes, and for every row i,
// values'[offsets'[i]..offsets'[i+1]] == bytes[old[OFF+i]..old[OFF+i+1]]; bytes sliced away are not
// carried. An empty slice is encoded with the single offset 0 and no value bytes.
macro_rules! byte_array_buffers {
    ($name:ident, $off:expr, $len:expr, $zero:expr) => {
        #[kani::proof]
        #[kani::unwind(9)]
        #[kani::stub(alloc::fmt::format, stub_format)]
        fn $name() {
            const OFF: usize = $off;
            const LEN: usize = $len;
            let mut offs = any_offsets::<4>(6);
            if $zero {                                          // one harness per code path, as for reencode_offsets
                let mut z = 0;
                while z <= OFF { offs[z] = 0; z += 1; }
            } else {
                kani::assume(offs[OFF] != 0);
            }
            let bytes: [u8; 6] = kani::any();
            let data = binary_data(&offs, &bytes, OFF, LEN);
            let [o, v] = get_byte_array_buffers::<i32>(&data);
            let n: &[i32] = o.typed_data::<i32>();
            assert!(n.len() == LEN + 1);
            assert!(n[0] == 0);
            if LEN == 0 {
                assert!(v.is_empty());
            } else {
                // offsets re-based by the first offset of the slice ...
                let mut i = 0;
                while i <= LEN {
                    assert!(n[i] == offs[OFF + i] - offs[OFF]);
                    i += 1;
                }
                // ... and values = exactly the referenced window of the old values, so that
                // values'[n[i]..n[i+1]] == bytes[old[OFF+i]..old[OFF+i+1]] for every row i
                let (a, b) = (offs[OFF] as usize, offs[OFF + LEN] as usize);
                assert!(v.len() == b - a);
                let j: usize = kani::any();
                if j < b - a { assert!(v.as_slice()[j] == bytes[a + j]); }
            }
            kani::cover!(LEN == 0 || offs[OFF + LEN] - offs[OFF] >= 2);
            kani::cover!(LEN < 2 || (offs[OFF + 1] > offs[OFF] && offs[OFF + 2] > offs[OFF + 1]));
            std::mem::forget(data);
        }
    };
}
// @unit name=byte_array_buffers_0_3_zero props=C04 kind=bounded bound=rows=3_value_bytes=6_slice=(0,3)_first_offset==0 fns=get_byte_array_buffers,reencode_offsets timeout=900 mem=6 tier=thorough note=not_confirmed_not_run
byte_array_buffers!(byte_array_buffers_0_3_zero, 0, 3, true);
// @unit name=byte_array_buffers_1_2_copy props=C04 kind=bounded bound=rows=3_value_bytes=6_slice=(1,2)_first_offset!=0 fns=get_byte_array_buffers,reencode_offsets timeout=900 mem=6 tier=thorough note=not_confirmed_timeout_measured
byte_array_buffers!(byte_array_buffers_1_2_copy, 1, 2, false);
// @unit name=byte_array_buffers_2_1_copy props=C04 kind=bounded bound=rows=3_value_bytes=6_slice=(2,1)_first_offset!=0 fns=get_byte_array_buffers,reencode_offsets timeout=900 mem=6 tier=thorough note=not_confirmed_not_run
byte_array_buffers!(byte_array_buffers_2_1_copy, 2, 1, false);
// @unit name=byte_array_buffers_2_0_empty props=C04 kind=bounded bound=rows=3_value_bytes=6_slice=(2,0)_empty fns=get_byte_array_buffers timeout=900 mem=6 tier=thorough note=not_confirmed_not_run
byte_array_buffers!(byte_array_buffers_2_0_empty, 2, 0, false);

// Contract (C04): get_or_truncate_buffer(data) on an Int32 array with 4 physical values seen through the
// slice (OFF, LEN): the returned buffer holds exactly the slice's elements — LEN*4 bytes equal to the
// little-endian encoding of store[OFF..OFF+LEN] — values sliced away are not carried.
macro_rules! truncate_i32 {
    ($name:ident, $off:expr, $len:expr) => {
        #[kani::proof]
        #[kani::unwind(8)]
        #[kani::stub(alloc::fmt::format, stub_format)]
        fn $name() {
            const OFF: usize = $off;
            const LEN: usize = $len;
            let store: [i32; 4] = kani::any();
            let data = unsafe {
                ArrayData::new_unchecked(DataType::Int32, LEN, Some(0), None, OFF, vec![Buffer::from_slice_ref(&store)], vec![])
            };
            let b = get_or_truncate_buffer(&data);
            assert!(b.len() == LEN * 4);
            let t: &[i32] = b.typed_data::<i32>();
            let mut i = 0;
            while i < LEN {
                assert!(t[i] == store[OFF + i]);
                i += 1;
            }
            kani::cover!(true);
            std::mem::forget(data);
        }
    };
}
// @unit name=truncate_i32_0_4 props=C04 kind=bounded bound=physical_values=4_slice=(0,4) fns=get_or_truncate_buffer,buffer_need_truncate,get_buffer_element_width timeout=900 mem=6 tier=thorough note=not_confirmed_not_run
truncate_i32!(truncate_i32_0_4, 0, 4);
// @unit name=truncate_i32_0_2 props=C04 kind=bounded bound=physical_values=4_slice=(0,2) fns=get_or_truncate_buffer,buffer_need_truncate,get_buffer_element_width timeout=900 mem=6 tier=thorough note=not_confirmed_not_run
truncate_i32!(truncate_i32_0_2, 0, 2);
// @unit name=truncate_i32_1_2 props=C04 kind=bounded bound=physical_values=4_slice=(1,2) fns=get_or_truncate_buffer,buffer_need_truncate,get_buffer_element_width timeout=900 mem=6 tier=quick
truncate_i32!(truncate_i32_1_2, 1, 2);
// @unit name=truncate_i32_2_2 props=C04 kind=bounded bound=physical_values=4_slice=(2,2) fns=get_or_truncate_buffer,buffer_need_truncate,get_buffer_element_width timeout=900 mem=6 tier=thorough note=not_confirmed_not_run
truncate_i32!(truncate_i32_2_2, 2, 2);
