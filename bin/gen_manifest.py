#!/usr/bin/env python3
"""Regenerate MANIFEST.json from props/<id>.json (claimed properties) and props/not_applicable.json."""
import json, os, glob, subprocess
ROOT = os.path.dirname(os.path.dirname(os.path.abspath(__file__)))
ids = [json.loads(l)['id'] for l in open(os.path.join(ROOT, 'properties.jsonl'))]
na = json.load(open(os.path.join(ROOT, 'props', 'not_applicable.json')))
checks = []; napp = []
for i in ids:
    p = os.path.join(ROOT, 'props', i + '.json')
    if os.path.exists(p) and json.load(open(p)).get('claimed'):
        m = json.load(open(p))
        checks.append({
            'property_id': i,
            'quick_cmd': 'bin/check %s --tier quick' % i,
            'thorough_cmd': 'bin/check %s --tier thorough' % i,
            'evidence_file': '/verif/evidence/%s.json' % i,
            'replay_cmd_template': 'bin/check %s --replay {path}' % i,
            'engine': 'contracts',
            'level_claimed': {'category': m['level'], 'text': m['level_text'], 'design_ref': m.get('design_ref', 'DESIGN.md section 4 ' + i)},
            'level_note': m['level_note'],
            'technique': m['technique'],
        })
    else:
        napp.append({'property_id': i, 'reason': na.get(i, 'no check registered yet in this revision of /verif (build in progress); see DESIGN.md section 4 for the planned units')})
try:
    commits = subprocess.run(['git', '-C', '/repo', 'log', '--format=%H %s', '--grep', '^verif hook'], capture_output=True, text=True).stdout.strip().split('\n')
except Exception:
    commits = []
man = {
    'version': 1,
    'setup_cmd': 'bin/setup',
    'hooks': {
        'guard': 'cfg(kani)',
        'enable': 'cargo kani sets --cfg kani; each hooked /repo file ends with `#[cfg(kani)] #[path = "/verif/kani/<crate>/<file>.rs"] mod verif_kani;` so the harness module is a child of the module under contract (sees private items). Verus units need no hook: functions are extracted mechanically from the working tree on every run.',
        'baseline_off_cmd': 'cd /repo && cargo nextest run --workspace --no-fail-fast --offline --test-threads 8',
        'source_commits': [c.split()[0] for c in commits if c],
        'add_only': True,
    },
    'engines': [{'name': 'contracts', 'path': '/verif/bin/check', 'serves_properties': [c['property_id'] for c in checks],
                 'kind_free_text': 'contract-based deductive verification of the real code: Kani 0.68/CBMC harness-and-stub contracts compiled inside the real crates; Verus 0.2026.09.13 on functions extracted mechanically from /repo each run'}],
    'checks': checks,
    'not_applicable': napp,
    'notes': 'exit codes of bin/check: 0 all obligations discharged; 1 VIOLATION (or listed KNOWN-FINDING only -> 0); 2 undecided (tool limit, lost anchor, compile error) - never an alarm. Known findings: /verif/known_findings.json.',
}
json.dump(man, open(os.path.join(ROOT, 'MANIFEST.json'), 'w'), indent=1)
print('checks:', [c['property_id'] for c in checks]); print('n/a:', [n['property_id'] for n in napp])
