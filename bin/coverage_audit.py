#!/usr/bin/env python3
"""List functions of the hooked /repo files that no unit names under contract (fns= / Verus extract).
Usage: coverage_audit.py [KANI_DIR ...]  (default /verif/kani; extra dirs e.g. /tmp/dev/x/kani are unioned)"""
import os, re, sys, glob
sys.path.insert(0, os.path.dirname(os.path.dirname(os.path.abspath(__file__))))
from vlib import extract as X
try:
    import tomllib
except ImportError:
    import tomli as tomllib
dirs = sys.argv[1:] or ['/verif/kani']
covered = {}   # rel file -> set of fn names (last path segment)
def add(rel, name):
    covered.setdefault(rel, set()).add(re.split(r'::|<|\.', name.strip())[-1] if '::' in name else name.strip())
    covered[rel].add(name.strip().split('::')[-1])
hooks = [l.strip() for l in open('/verif/hooks.txt') if l.strip() and not l.startswith('#')]
for kd in dirs:
    for rel in hooks:
        crate, rest = rel.split('/src/', 1)
        hp = os.path.join(kd, crate, rest)
        if not os.path.exists(hp): continue
        for m in re.finditer(r'fns=(\S+)', open(hp).read()):
            for n in m.group(1).split(','):
                n = re.sub(r'<[^>]*>', '', n)
                add(rel, n)
for p in glob.glob('/verif/verus/*.spec.toml'):
    spec = tomllib.load(open(p, 'rb'))
    for f in spec.get('extract', []):
        if f.get('mode') == 'assume': continue
        add(f.get('file', spec.get('file')), f['fn'])
tot = unc = 0
for rel in hooks:
    src = open(os.path.join('/repo', rel)).read()
    # cut test modules
    cut = src.find('#[cfg(test)]')
    body = X.strip_tokens(src if cut < 0 else src[:cut])
    names = []
    for m in re.finditer(r'\bfn\s+([A-Za-z_]\w*)', body):
        if m.group(1) not in names: names.append(m.group(1))
    cov = covered.get(rel, set())
    missing = [n for n in names if n not in cov and n not in ('fmt', 'default', 'from', 'clone', 'drop', 'deref', 'as_ref', 'hash')]
    tot += len(names); unc += len(missing)
    if '-q' not in sys.argv:
        print('%-60s %3d fns, %3d under contract; missing: %s' % (rel, len(names), len(names) - len(missing), ' '.join(missing[:60])))
print('TOTAL %d functions in hooked files, %d named by some unit, %d not' % (tot, tot - unc, unc))
