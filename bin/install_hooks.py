#!/usr/bin/env python3
"""Idempotently append the cfg(kani) child-module hook to every /repo file in hooks.txt
and make sure the harness file it names exists under /verif/kani (empty if new).
Usage: install_hooks.py [REPO] [KANI_DIR]   (defaults /repo /verif/kani)"""
import os, sys
repo = sys.argv[1] if len(sys.argv) > 1 else '/repo'
kdir = sys.argv[2] if len(sys.argv) > 2 else '/verif/kani'
here = os.path.dirname(os.path.dirname(os.path.abspath(__file__)))
for line in open(os.path.join(here, 'hooks.txt')):
    rel = line.strip()
    if not rel or rel.startswith('#'): continue
    crate, rest = rel.split('/src/', 1)
    hpath = os.path.join(kdir, crate, rest)
    os.makedirs(os.path.dirname(hpath), exist_ok=True)
    if not os.path.exists(hpath):
        open(hpath, 'w').write('// Kani contract harnesses for /repo/%s (child module: sees private items via super::)\n' % rel)
    src = os.path.join(repo, rel)
    text = open(src).read()
    marker = 'mod verif_kani;'
    if marker in text:
        continue
    if not text.endswith('\n'): text += '\n'
    text += '\n#[cfg(kani)]\n#[path = "%s"]\nmod verif_kani;\n' % hpath
    open(src, 'w').write(text)
    print('hooked', rel)
