#!/usr/bin/env python3
"""make_tiers.py: derive tiers.json from target/measure.jsonl (latest record per unit).
quick: ok and <= QUICK_S; thorough: ok and <= THOROUGH_S; off: anything else (reason recorded)."""
import json, os, sys
ROOT = os.path.dirname(os.path.dirname(os.path.abspath(__file__)))
QUICK_S = float(os.environ.get('QUICK_S', '100')); THOROUGH_S = float(os.environ.get('THOROUGH_S', '300'))
rec = {}
for l in open(os.path.join(ROOT, 'target/measure.jsonl')):
    r = json.loads(l); rec[r['id']] = r
tp = os.path.join(ROOT, 'tiers.json')
tiers = json.load(open(tp)) if os.path.exists(tp) else {}
n = {'quick': 0, 'thorough': 0, 'off': 0}
for i, r in rec.items():
    if tiers.get(i, {}).get('manual'): continue
    if r['status'] == 'ok' and r['time_s'] <= QUICK_S: t = {'tier': 'quick'}
    elif r['status'] == 'ok' and r['time_s'] <= THOROUGH_S: t = {'tier': 'thorough'}
    elif r['status'] == 'ok': t = {'tier': 'off', 'why': 'passes but takes %.0f s on a quiet machine (over the thorough budget)' % r['time_s']}
    else: t = {'tier': 'off', 'why': ('%s: %s %s' % (r['status'], r.get('why') or '', '; '.join(r.get('failed') or [])))[:300]}
    t['measured_s'] = r['time_s']
    tiers[i] = t; n[t['tier']] += 1
json.dump(tiers, open(tp, 'w'), indent=0, sort_keys=True)
print(n)
