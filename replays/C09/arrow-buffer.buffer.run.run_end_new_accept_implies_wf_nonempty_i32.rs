// VIOLATION of C09 (Checked constructors never accept a malformed array layout)
// failed obligation(s) of unit arrow-buffer.buffer.run.run_end_new_accept_implies_wf_nonempty_i32 [bounded]
// contract: Same contract restricted to a non-empty logical window (len > 0): holds on the unchanged tree.
//   - assertion failed: wf_run_ends(&v, off, len)  (in buffer::run::verif_kani::run_end_new_case::<i32, 4, true> at {"file": "/verif/kani/arrow-buffer/buffer/run.rs", "line": "72", "column": "5"})
//   - assertion failed: wf_run_ends(&v, off, len)  (in buffer::run::verif_kani::run_end_new_case::<i32, 3, true> at {"file": "/verif/kani/arrow-buffer/buffer/run.rs", "line": "72", "column": "5"})
//   - assertion failed: wf_run_ends(&v, off, len)  (in buffer::run::verif_kani::run_end_new_case::<i32, 1, true> at {"file": "/verif/kani/arrow-buffer/buffer/run.rs", "line": "72", "column": "5"})
//   - assertion failed: wf_run_ends(&v, off, len)  (in buffer::run::verif_kani::run_end_new_case::<i32, 2, true> at {"file": "/verif/kani/arrow-buffer/buffer/run.rs", "line": "72", "column": "5"})
// ---- generated tests ----
// playback not attempted (cap of 1 playbacks per run reached or --no-playback)
