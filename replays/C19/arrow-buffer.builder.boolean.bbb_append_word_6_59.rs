// VIOLATION of C19 (Bit-packed mask primitives are exact at every bit offset and length)
// failed obligation(s) of unit arrow-buffer.builder.boolean.bbb_append_word_6_59 [bounded]
// contract: Contract (C19/C01) BooleanBufferBuilder::append_word(word, count), count <= 64: after append_n(w, v) the call appends exactly the count low bits of the symbolic word, LSB first (bits >= count of the word are not read as data), leaves the first w values unchanged, and a following append lands right after them.
//   - assertion failed: out.value(i) == m.v[i]  (in builder::boolean::verif_kani::check_finish at {"file": "/verif/kani/arrow-buffer/builder/boolean.rs", "line": "113", "column": "9"})
//   - assertion failed: b.get_bit(i) == m.v[i]  (in builder::boolean::verif_kani::check at {"file": "/verif/kani/arrow-buffer/builder/boolean.rs", "line": "101", "column": "9"})
// ---- generated tests ----
// playback not attempted (cap of 1 playbacks per run reached or --no-playback)
