// VIOLATION of C01 (Every array returned by a safe API is a well-formed Arrow array)
// failed obligation(s) of unit arrow-select.filter.filter_boolean_indices_n4_k2 [bounded]
// contract: Contract (C03 + C01): filter_boolean(array, predicate) with strategy Indices(v), |v| = K ascending positions < N, on a BooleanArray of N rows (values at bit offset 6, optional validity at bit offset 1, all bits symbolic): the result is a well-formed BooleanArray of exactly K rows; row k is null <=> source row v[k] is null, and otherwise has the value of source row v[k]; exact null count.
//   - assertion failed: out.value(k) == bit(& vb, 6 + v [k])  (in filter::verif_kani::filter_boolean_indices_n4_k2 at {"file": "/verif/kani/arrow-select/filter.rs", "line": "610", "column": "1"})
// ---- generated tests ----
// playback not attempted (cap of 1 playbacks per run reached or --no-playback)
