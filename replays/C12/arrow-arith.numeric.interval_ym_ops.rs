// VIOLATION of C12 (Arithmetic, aggregation and boolean kernels are exact or report overflow)
// failed obligation(s) of unit arrow-arith.numeric.interval_ym_ops [complete]
// contract: Contract (C12): IntervalYearMonthType (native i32 = months): add / sub = exact sum / difference in i64 if it fits i32, else Err(ArithmeticOverflow); mul_i64 = exact product in i128 if it fits i32, else Err(ArithmeticOverflow).  No result is ever a wrapped value.
//   - assertion failed: fits32(p) && *v as i128 == p  (in numeric::verif_kani::interval_ym_ops at {"file": "/verif/kani/arrow-arith/numeric.rs", "line": "56", "column": "26"})
// ---- generated tests ----
// playback not attempted (cap of 1 playbacks per run reached or --no-playback)
