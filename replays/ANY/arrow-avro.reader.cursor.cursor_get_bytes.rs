// VIOLATION of ANY ()
// failed obligation(s) of unit arrow-avro.reader.cursor.cursor_get_bytes [bounded]
// contract: Contract (C08): get_bytes on arbitrary input: the length prefix is an Avro long L; Ok(s) iff the prefix is a well-formed varint, L >= 0 and L <= bytes remaining after the prefix — then s is exactly input[k .. k+L] (same memory) and the cursor sits right behind it; a negative or too large L (up to i64::MAX: no wrap-around, no huge allocation — nothing is allocated at all) is an Err.
//   - assertion failed: r.is_ok() == fits  (in reader::cursor::verif_kani::cursor_get_bytes at {"file": "/tmp/dev/pq1/kani/arrow-avro/reader/cursor.rs", "line": "228", "column": "13"})
//   - assertion failed: pos_of(&c, &a, n) == k  (in reader::cursor::verif_kani::cursor_get_bytes at {"file": "/tmp/dev/pq1/kani/arrow-avro/reader/cursor.rs", "line": "233", "column": "17"})
//   - assertion failed: s.len() as i64 == l && s.as_ptr() == a[k..].as_ptr()  (in reader::cursor::verif_kani::cursor_get_bytes at {"file": "/tmp/dev/pq1/kani/arrow-avro/reader/cursor.rs", "line": "230", "column": "17"})
//   - assertion failed: r.is_err() && pos_of(&c, &a, n) == 0  (in reader::cursor::verif_kani::cursor_get_bytes at {"file": "/tmp/dev/pq1/kani/arrow-avro/reader/cursor.rs", "line": "224", "column": "17"})
// ---- generated tests ----
// playback not attempted (cap of 3 playbacks per run reached or --no-playback)
