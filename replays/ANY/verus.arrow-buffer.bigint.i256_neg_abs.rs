// VIOLATION of ANY ()
// failed obligation(s) of unit verus.arrow-buffer.bigint.i256_neg_abs [verus]
// contract: On view(x) = high*2^128 + low: wrapping_sub = difference mod 2^256; wrapping_neg = -x mod 2^256; checked_neg = Some(-x) iff representable (x != MIN); wrapping_abs = |x| mod 2^256; checked_abs = Some(|x|) iff x != MIN; is_negative/is_positive/signum are the sign of the 256-bit integer.
//   - postcondition not satisfied  (in wrapping_abs at "arrow-buffer/src/bigint/mod.rs:330")
// Verus gives no counterexample; verifier output follows, then the paired Kani harness result.
//   error: postcondition not satisfied
//      --> /verif/target/work/ANY__tmp_wt_me/verus_arrow_buffer_bigint_i256_neg_abs.rs:148:9
//       |
//   148 |         r.v() == wrap256(if self.v() < 0 { -self.v() } else { self.v() }),
//       |         ^^^^^^^^^^^^^^^^^^^^^^^^^^^^^^^^^^^^^^^^^^^^^^^^^^^^^^^^^^^^^^^^^ failed this postcondition
//   ...
//   166 |         Self::from_parts(self.low ^ sa.low, self.high ^ sa.high).wrapping_sub(sa)
//       |         ------------------------------------------------------------------------- at the end of the function body
//   
//   note: recommendation not met: value may be out of range of the target type (use `#[verifier::truncate]` on the cast to silence this warning)
//      --> /verif/target/work/ANY__tmp_wt_me/verus_arrow_buffer_bigint_i256_neg_abs.rs:163:35
//       |
//   163 |         let sa = Self::from_parts(sa as u128, sa);
//       |                                   ^^
//   
//   error: aborting due to 1 previous error
//   
//   
// functions whose extracted text differs from the baseline: ['wrapping_abs']
// ---- generated tests ----

