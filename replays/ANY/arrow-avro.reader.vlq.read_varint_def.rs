// VIOLATION of ANY ()
// failed obligation(s) of unit arrow-avro.reader.vlq.read_varint_def [bounded]
// contract: Contract (C08): read_varint / skip_varint on ANY byte string of <= 16 bytes (so: the one-byte shortcut, the slow path for < 10 bytes, the array path for >= 10 bytes, trailing garbage): Some((v, k)) iff the string starts with a well-formed varint of k <= 10 bytes (k <= len) whose value is v; None iff there is no terminator within the first 10 bytes / within the input, or the 10th byte is >= 2. skip_varint returns exactly the k of read_varint. skip_varint_slow (precondition len < 10) agrees. Never panics.
//   - assertion failed: got.is_none() && skipped.is_none()  (in reader::vlq::verif_kani::read_varint_def at {"file": "/tmp/dev/pq1/kani/arrow-avro/reader/vlq.rs", "line": "226", "column": "14"})
//   - assertion failed: got == Some((v, k)) && k <= n && k <= 10  (in reader::vlq::verif_kani::read_varint_def at {"file": "/tmp/dev/pq1/kani/arrow-avro/reader/vlq.rs", "line": "223", "column": "13"})
// ---- generated tests ----
// playback not attempted (cap of 3 playbacks per run reached or --no-playback)
