// VIOLATION of ANY ()
// failed obligation(s) of unit arrow-cast.cast.decimal.rescale32_beyond_table [complete]
// contract: Contract (C13; doc of rescale_decimal: "When the scaling factor exceeds the precision table of the destination type, the value is treated as an overflow for upscaling, or rounded to zero for downscaling"): for every valid (ip,is),(op,os) of Decimal32 with |os - is| >= 10 (difference representable in i8, see finding_rescale32_scale_difference_overflow for the rest) and |x| < 10^ip: os - is >= 10, x != 0:  x*10^(os-is) has more than 9 digits           => None os - is <= -10:         |x| / 10^(is-os) < 0.1 rounds (half away) to 0 => Some(0) (x == 0 with os - is >= 10 is excluded: see finding_rescale32_zero_upscale_beyond_table.)
//   - attempt to subtract with overflow  (in cast::decimal::make_downscaler::<arrow_array::types::Decimal32Type, arrow_array::types::Decimal32Type> at {"file": "arrow-cast/src/cast/decimal.rs", "line": "223", "column": "23"})
// ---- generated tests ----
// playback not attempted (cap of 3 playbacks per run reached or --no-playback)
