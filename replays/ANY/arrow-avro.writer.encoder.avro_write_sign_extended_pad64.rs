// VIOLATION of ANY ()
// failed obligation(s) of unit arrow-avro.writer.encoder.avro_write_sign_extended_pad64 [bounded]
// contract: Contract (C17): the 64-byte pad chunking: a 1- or 2-byte source sign-extended to n in 60..=70 bytes (crosses the 64-byte pad chunk) writes exactly n bytes: n - len pad bytes equal to the sign byte, then src.
//   - assertion failed: r.is_ok() && used == n  (in writer::encoder::verif_kani::avro_write_sign_extended_pad64 at {"file": "/tmp/dev/pq1/kani/arrow-avro/writer/encoder.rs", "line": "240", "column": "5"})
// ---- generated tests ----
// playback not attempted (cap of 3 playbacks per run reached or --no-playback)
