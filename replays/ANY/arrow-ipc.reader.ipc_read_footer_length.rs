// VIOLATION of ANY ()
// failed obligation(s) of unit arrow-ipc.reader.ipc_read_footer_length [complete]
// contract: Contract (C18, C08): for every 10-byte file tail, read_footer_length returns Ok(n) exactly when bytes 4..10 are the magic "ARROW1" AND the little-endian i32 in bytes 0..4 is non-negative; n is then exactly that integer (no wrap-around of a negative length into a huge usize). Any other tail — a file cut anywhere, garbage, a negative length — is an Err, never a panic. (The brief words the length condition as "> 0"; the code — and the format — accept 0, which the caller then rejects when it parses an empty footer. The contract states ">= 0"; see REPORT.) Stub: alloc::fmt::format.
//   - assertion failed: r.is_ok() == (magic_ok && len >= 0)  (in reader::verif_kani::ipc_read_footer_length at {"file": "/tmp/dev/pq1/kani/arrow-ipc/reader.rs", "line": "26", "column": "5"})
// ---- generated tests ----
// playback not attempted (cap of 3 playbacks per run reached or --no-playback)
