// VIOLATION of ANY ()
// failed obligation(s) of unit arrow-buffer.buffer.ops.ops_buffer_not_3_12_2_0 [bounded]
// contract: Contract (C19) buffer_unary_not(src, offset, len): "Apply a bitwise not to one input and return the result as a Buffer. The input is treated as a bitmap [...] offset and length are specified in number of bits": the returned Buffer is a zero-offset bitmap (like the result of every other function of this module) of at least ceil(len/8) bytes whose bit i is the negation of src-bit offset+i, for every i < len.
//   - assertion failed: bit(z.as_slice(), i) == !bit(&a, 8 * SK + OFF + i)  (in buffer::ops::verif_kani::buffer_not_grid::<3, 12, 2, 0> at {"file": "/tmp/dev/bbuf/kani/arrow-buffer/buffer/ops.rs", "line": "269", "column": "5"})
// ---- generated tests ----
// playback not attempted (cap of 3 playbacks per run reached or --no-playback)
