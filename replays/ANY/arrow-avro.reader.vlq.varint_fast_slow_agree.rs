// VIOLATION of ANY ()
// failed obligation(s) of unit arrow-avro.reader.vlq.varint_fast_slow_agree [complete]
// contract: Contract (C08): on every 10-byte array the unrolled fast path and the generic slow path agree with each other and with the format definition: read_varint_array(b) = read_varint_slow(&b) = Some((value, k)) iff a terminator occurs at index k-1 <= 9 (and the 10th byte, if reached, is < 2), else None; same for skip_varint_array vs the count. (The fast path's add/subtract trick never overflows.)
//   - assertion failed: fast == slow  (in reader::vlq::verif_kani::varint_fast_slow_agree at {"file": "/tmp/dev/pq1/kani/arrow-avro/reader/vlq.rs", "line": "198", "column": "5"})
// ---- generated tests ----
// playback not attempted (cap of 3 playbacks per run reached or --no-playback)
