// VIOLATION of ANY ()
// failed obligation(s) of unit arrow-avro.writer.encoder.avro_write_bool_len_prefixed [bounded]
// contract: Contract (C17): write_bool writes the single byte 0 / 1; write_len_prefixed(bytes) writes the canonical varint of the length followed by exactly the bytes (payload <= 4 bytes); Err if the sink is too small.
//   - assertion failed: used == 1 && buf[0] == v as u8 && buf[1] == 0xAA  (in writer::encoder::verif_kani::avro_write_bool_len_prefixed at {"file": "/tmp/dev/pq1/kani/arrow-avro/writer/encoder.rs", "line": "87", "column": "13"})
//   - assertion failed: buf[0] == 2 * k as u8  (in writer::encoder::verif_kani::avro_write_bool_len_prefixed at {"file": "/tmp/dev/pq1/kani/arrow-avro/writer/encoder.rs", "line": "106", "column": "13"})
// ---- generated tests ----
// playback not attempted (cap of 3 playbacks per run reached or --no-playback)
