// VIOLATION of ANY ()
// failed obligation(s) of unit arrow-avro.reader.vlq.avro_long_decode_canonical [complete]
// contract: Contract (C17), reader half of the Avro long/int round trip. (The writer half — write_long(x) emits exactly spec_encode(zigzag(x)) — is unit arrow-avro.writer.encoder.avro_write_long_canonical; the two modules are private to different parents, so the composition decode(encode(x)) = x is made through the shared byte-level specification.) For EVERY i64 x: both readers decode the canonical encoding of x (1..=10 bytes) back to x and consume every byte: VLQDecoder::long = Ok(Some(x)); read_varint = the zig-zag image with the full length; every proper prefix is "incomplete" (Ok(None) / None), never a value. Stub: alloc::fmt::format.
//   - assertion failed: read_varint(&enc[..len]) == Some((zz, len))  (in reader::vlq::verif_kani::avro_long_decode_canonical at {"file": "/tmp/dev/pq1/kani/arrow-avro/reader/vlq.rs", "line": "260", "column": "5"})
// ---- generated tests ----
// playback not attempted (cap of 3 playbacks per run reached or --no-playback)
