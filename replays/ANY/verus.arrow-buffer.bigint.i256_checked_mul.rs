// VIOLATION of ANY ()
// failed obligation(s) of unit verus.arrow-buffer.bigint.i256_checked_mul [verus]
// contract: i256::checked_mul(a, b) returns Some(r) exactly when the mathematical product a*b is representable in 256 signed bits, and then view(r) == a*b; it returns None exactly on overflow - for ALL operands (every early-return overflow test, the carry columns, and the final sign check are covered).
//   - requires not satisfied  (in checked_mul at "arrow-buffer/src/bigint/mod.rs:419")
// Verus gives no counterexample; verifier output follows, then the paired Kani harness result.
//   note: recommendation not met: value may be out of range of the target type (use `#[verifier::truncate]` on the cast to silence this warning)
//      --> /verif/target/work/ANY__tmp_wt_me/verus_arrow_buffer_bigint_i256_checked_mul.rs:129:22
//       |
//   129 |         let out_sa = (l_sa ^ r_sa) as u128;
//       |                      ^^^^^^^^^^^^^
//   
//   note: recommendation not met: value may be out of range of the target type (use `#[verifier::truncate]` on the cast to silence this warning)
//      --> /verif/target/work/ANY__tmp_wt_me/verus_arrow_buffer_bigint_i256_checked_mul.rs:135:25
//       |
//   135 |         let ghost ah = (l_abs.high as u128) as int; let ghost al = l_abs.low as int;
//       |                         ^^^^^^^^^^
//   
//   error: requires not satisfied
//      --> /verif/target/work/ANY__tmp_wt_me/verus_arrow_buffer_bigint_i256_checked_mul.rs:193:64
//       |
//   193 |             assert(ah * bh == 0) by (nonlinear_arith) requires ah == 0 || bh == 0;
//       |                                                                ^^^^^^^^^^^^^^^^^^
//   
//   error: aborting due to 1 previous error
//   
//   
// functions whose extracted text differs from the baseline: ['checked_mul']
// ---- generated tests ----

