// VIOLATION of ANY ()
// failed obligation(s) of unit arrow-avro.reader.cursor.cursor_fixed_width [bounded]
// contract: Contract (C08): the fixed-width accessors. get_u8 / get_bool: Ok(first byte / first byte != 0) and advance 1 iff n >= 1, else Err(EOF), no move get_float / get_double: Ok(value whose bit pattern is the little-endian 4 / 8 bytes) and advance iff enough bytes, else Err, no move  (C17: this is the exact inverse of the writer's to_le_bytes, NaN payloads included) get_fixed(k), any k: Ok(sub-slice input[p..p+k]) and advance k iff k <= remaining, else Err, no move
//   - This is a placeholder message; Kani doesn't support message formatted at runtime  (in core::slice::index::slice_index_fail::do_panic::runtime at {"file": "/home/runner/.rustup/toolchains/nightly-2026-08-21-x86_64-unknown-linux-gnu/lib/rustlib/src/rust/library/core/src/slice/index.rs", "line": "50", "column": "9"})
//   - assertion failed: r0.is_ok()  (in reader::cursor::verif_kani::cursor_fixed_width at {"file": "/tmp/dev/pq1/kani/arrow-avro/reader/cursor.rs", "line": "66", "column": "5"})
//   - assertion failed: r.is_ok() == (k <= rem)  (in reader::cursor::verif_kani::cursor_fixed_width at {"file": "/tmp/dev/pq1/kani/arrow-avro/reader/cursor.rs", "line": "120", "column": "13"})
//   - assertion failed: ((x.to_bits() >> j) & 1 == 1) == bit(&a, p0 * 8 + j)  (in reader::cursor::verif_kani::cursor_fixed_width at {"file": "/tmp/dev/pq1/kani/arrow-avro/reader/cursor.rs", "line": "97", "column": "17"})
//   - assertion failed: pos_of(&c, &a, n) == p0 + r.is_ok() as usize  (in reader::cursor::verif_kani::cursor_fixed_width at {"file": "/tmp/dev/pq1/kani/arrow-avro/reader/cursor.rs", "line": "87", "column": "13"})
//   - assertion failed: pos_of(&c, &a, n) == p0 + r.is_ok() as usize  (in reader::cursor::verif_kani::cursor_fixed_width at {"file": "/tmp/dev/pq1/kani/arrow-avro/reader/cursor.rs", "line": "77", "column": "13"})
// ---- generated tests ----
// playback not attempted (cap of 3 playbacks per run reached or --no-playback)
