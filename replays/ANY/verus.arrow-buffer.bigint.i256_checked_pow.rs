// VIOLATION of ANY ()
// failed obligation(s) of unit verus.arrow-buffer.bigint.i256_checked_pow [verus]
// contract: i256::checked_pow(x, e): whenever it returns Some(r), view(r) == x^e exactly (never a wrapped value), for every base and every exponent (square-and-multiply loop invariant acc * base^exp == x^e). The converse (None only on overflow) is NOT part of this contract.
//   - postcondition not satisfied  (in checked_pow at "arrow-buffer/src/bigint/mod.rs:560")
// Verus gives no counterexample; verifier output follows, then the paired Kani harness result.
//   error: postcondition not satisfied
//     --> /verif/target/work/ANY/verus_arrow_buffer_bigint_i256_checked_pow.rs:48:9
//      |
//   48 |         r.is_some() ==> r.unwrap().v() == pow(self.v(), exp as nat),
//      |         ^^^^^^^^^^^^^^^^^^^^^^^^^^^^^^^^^^^^^^^^^^^^^^^^^^^^^^^^^^^ failed this postcondition
//   ...
//   96 |         acc.checked_mul(base)
//      |         --------------------- at the end of the function body
//   
//   error: aborting due to 1 previous error
//   
//   
// functions whose extracted text differs from the baseline: []
// ---- generated tests ----

