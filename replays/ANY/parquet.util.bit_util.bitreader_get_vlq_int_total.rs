// VIOLATION of ANY ()
// failed obligation(s) of unit parquet.util.bit_util.bitreader_get_vlq_int_total [bounded]
// contract: Contract (C08) — EXPECTED TO FAIL ON THE UNCHANGED TREE (candidate finding F2). For ARBITRARY bytes (<= 12, symbolic length) and any starting alignment, get_vlq_int and get_zigzag_vlq_int return — they never panic: Some(v) with the cursor just after the terminating byte when a byte without continuation bit occurs, None when the input is exhausted (or, were the code to reject them, for over-long encodings). Failing obligations on the unchanged code: `attempt to shift left with overflow` at bit_util.rs:890 and `assert!(shift <= MAX_VLQ_BYTE_LEN * 7)` at :892 whenever the aligned remainder starts with 11 bytes >= 0x80.
//   - attempt to shift left with overflow  (in util::bit_util::BitReader::get_vlq_int at {"file": "parquet/src/util/bit_util.rs", "line": "890", "column": "18"})
// ---- generated tests ----
// playback not attempted (cap of 3 playbacks per run reached or --no-playback)
