// VIOLATION of ANY ()
// failed obligation(s) of unit verus.arrow-buffer.bigint.mulx [verus]
// contract: mulx(a, b) returns (low, high) with low + high*2^128 == a*b exactly, for all 128-bit operands (the 64-bit limb schoolbook multiplication never overflows an intermediate and loses no carry).
//   - postcondition not satisfied  (in lemma_prod_bound at null)
//   - possible arithmetic underflow/overflow  (in mulx at "arrow-buffer/src/bigint/mod.rs:841")
//   - possible arithmetic underflow/overflow  (in mulx at "arrow-buffer/src/bigint/mod.rs:841")
// Verus gives no counterexample; verifier output follows, then the paired Kani harness result.
//   error: postcondition not satisfied
//     --> /verif/target/work/ANY/verus_arrow_buffer_bigint_mulx.rs:24:54
//      |
//   22 | proof fn lemma_prod_bound(x: int, y: int)
//      |       ----------------------------------- at the end of the function body
//   23 |     requires 0 <= x < w64(), 0 <= y < w64()
//   24 |     ensures 0 <= x * y <= (w64() - 1) * (w64() - 1), (w64() - 1) * (w64() - 1) + 2 * (w64() - 1) < p128()
//      |                                                      ^^^^^^^^^^^^^^^^^^^^^^^^^^^^^^^^^^^^^^^^^^^^^^^^^^^^ failed this postcondition
//   
//   error: possible arithmetic underflow/overflow
//     --> /verif/target/work/ANY/verus_arrow_buffer_bigint_mulx.rs:88:5
//      |
//   88 |     high += carry >> 64;
//      |     ^^^^^^^^^^^^^^^^^^^
//   
//   error: possible arithmetic underflow/overflow
//     --> /verif/target/work/ANY/verus_arrow_buffer_bigint_mulx.rs:91:5
//      |
//   91 |     high += a_high * b_high;
//      |     ^^^^^^^^^^^^^^^^^^^^^^^
//   
//   note: function body check: not all errors may have been reported; rerun with a higher value for --multiple-errors to find other potential errors in this function
//     --> /verif/target/work/ANY/verus_arrow_buffer_bigint_mulx.rs:41:1
//      |
//   41 | const fn mulx(a: u128, b: u128) -> (r: (u128, u128))
//      | ^^^^^^^^^^^^^^^^^^^^^^^^^^^^^^^^^^^^^^^^^^^^^^^^^^^
//   
//   error: aborting due to 3 previous errors
//   
//   
// functions whose extracted text differs from the baseline: []
// ---- generated tests ----

