// VIOLATION of ANY ()
// failed obligation(s) of unit parquet-variant.decoder.decode_uuid_total [complete]
// contract: Contract (C08) — EXPECTED TO FAIL ON THE UNCHANGED TREE (finding F3). decode_uuid on arbitrary bytes: Ok(u) exactly when at least 16 bytes are present, u being those 16 bytes (big-endian UUID field order as the specification says); Err — never a panic — on shorter input, like every sibling decoder. Failing obligation on the unchanged code: slice index `data[0..16]` out of range (decoder.rs:341) for every input shorter than 16 bytes; reachable from Variant::try_new (see REPORT). Stub: alloc::fmt::format.
//   - This is a placeholder message; Kani doesn't support message formatted at runtime  (in core::slice::index::slice_index_fail::do_panic::runtime at {"file": "/home/runner/.rustup/toolchains/nightly-2026-08-21-x86_64-unknown-linux-gnu/lib/rustlib/src/rust/library/core/src/slice/index.rs", "line": "50", "column": "9"})
// ---- generated tests ----
// playback not attempted (cap of 3 playbacks per run reached or --no-playback)
