// VIOLATION of ANY ()
// failed obligation(s) of unit arrow-avro.writer.encoder.minimal_twos_complement_pair [bounded]
// contract: Contract (C17) — Kani pair of the Verus proof of the same function. For every big-endian two's-complement byte string `be` of <= 16 bytes, r = minimal_twos_complement(be): (i)   r is a SUFFIX of be (same memory, ends where be ends); empty in = empty out, else |r| >= 1; (ii)  r denotes the same signed integer as be (compared as sign-extended 128-bit values); (iii) r is minimal: |r| = 1 or its first byte is not a redundant sign byte (not (r[0] = 0x00 and r[1] < 0x80) and not (r[0] = 0xFF and r[1] >= 0x80)).
//   - assertion failed: sext128(r) == sext128(be)  (in writer::encoder::verif_kani::minimal_twos_complement_pair at {"file": "/tmp/dev/pq1/kani/arrow-avro/writer/encoder.rs", "line": "150", "column": "9"})
// ---- generated tests ----
// playback not attempted (cap of 3 playbacks per run reached or --no-playback)
