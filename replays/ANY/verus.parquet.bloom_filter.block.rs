// VIOLATION of ANY ()
// failed obligation(s) of unit verus.parquet.bloom_filter.block [verus]
// contract: Block::mask(x) word i == 1 << ((x * SALT[i] mod 2^32) >> 27) (the BloomFilter.md definition); Block::insert(h) ORs exactly that mask into the block, so afterwards check(h) holds and every previously set bit is still set; Block::check(h) is true iff all 8 mask bits are set; lemma: a successful check stays successful in any superset block. By induction over the insert history every inserted hash tests positive in its block.
//   - postcondition not satisfied  (in insert_hash at "parquet/src/bloom_filter/mod.rs:550")
// Verus gives no counterexample; verifier output follows, then the paired Kani harness result.
//   note: recommendation not met: value may be out of range of the target type (use `#[verifier::truncate]` on the cast to silence this warning)
//      --> /verif/target/work/ANY/verus_parquet_bloom_filter_block.rs:163:84
//       |
//   163 |         block_has(final(self).0[spec_block_index(hash, old(self).0.len() as int)], hash as u32),
//       |                                                                                    ^^^^
//   
//   error: postcondition not satisfied
//      --> /verif/target/work/ANY/verus_parquet_bloom_filter_block.rs:164:9
//       |
//   164 |         forall|k: int| 0 <= k < old(self).0.len() ==> subset(#[trigger] old(self).0[k], final(self).0[k]),
//       |         ^^^^^^^^^^^^^^^^^^^^^^^^^^^^^^^^^^^^^^^^^^^^^^^^^^^^^^^^^^^^^^^^^^^^^^^^^^^^^^^^^^^^^^^^^^^^^^^^^ failed this postcondition
//   ...
//   168 |         self.0[block_index].insert(hash as u32)
//       |         --------------------------------------- at the end of the function body
//   
//   note: recommendation not met: value may be out of range of the target type (use `#[verifier::truncate]` on the cast to silence this warning)
//      --> /verif/target/work/ANY/verus_parquet_bloom_filter_block.rs:168:36
//       |
//   168 |         self.0[block_index].insert(hash as u32)
//       |                                    ^^^^
//   
//   error: aborting due to 1 previous error
//   
//   
// functions whose extracted text differs from the baseline: []
// ---- generated tests ----

