// VIOLATION of ANY ()
// failed obligation(s) of unit arrow-avro.writer.encoder.avro_write_sign_extended [bounded]
// contract: Contract (C17): write_sign_extended(out, src_be, n) for src of <= 8 bytes and 1 <= n <= 8 (an Avro fixed has at least one byte; n = 0 is excluded, see REPORT) into a sink of capacity `cap`: Ok  <=> the integer v denoted by src fits n bytes (-2^(8n-1) <= v < 2^(8n-1)) and n <= cap; Ok  => exactly n bytes were written and they denote the same integer v (sign extension / truncation of redundant sign bytes only); bytes behind them are untouched. Err otherwise — a value that does not fit is never truncated silently.
//   - assertion failed: r.is_ok() == (fits && n <= cap)  (in writer::encoder::verif_kani::avro_write_sign_extended at {"file": "/tmp/dev/pq1/kani/arrow-avro/writer/encoder.rs", "line": "203", "column": "5"})
//   - assertion failed: used == n  (in writer::encoder::verif_kani::avro_write_sign_extended at {"file": "/tmp/dev/pq1/kani/arrow-avro/writer/encoder.rs", "line": "205", "column": "9"})
// ---- generated tests ----
// playback not attempted (cap of 3 playbacks per run reached or --no-playback)
