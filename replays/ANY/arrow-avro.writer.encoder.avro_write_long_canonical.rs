// VIOLATION of ANY ()
// failed obligation(s) of unit arrow-avro.writer.encoder.avro_write_long_canonical [complete]
// contract: Contract (C17): for EVERY i64 x, write_long(x) into a sink with room writes exactly the canonical shortest zig-zag varint of x — 1..=10 bytes, byte i = 7-bit group i of zigzag(x), continuation bit on all but the last, no trailing zero group — and nothing else. write_int(x32) = write_long(x32 as i64) (1..=5 bytes). With a sink that is too small the call returns Err (C18), never Ok. (Reader half: arrow-avro.reader.vlq.avro_long_decode_canonical decodes exactly this byte string back to x.)
//   - assertion failed: r.is_ok() == (len <= cap)  (in writer::encoder::verif_kani::avro_write_long_canonical at {"file": "/tmp/dev/pq1/kani/arrow-avro/writer/encoder.rs", "line": "51", "column": "5"})
//   - assertion failed: used == len  (in writer::encoder::verif_kani::avro_write_long_canonical at {"file": "/tmp/dev/pq1/kani/arrow-avro/writer/encoder.rs", "line": "53", "column": "9"})
//   - assertion failed: buf[i] == if i < len { want[i] } else { 0xAA }  (in writer::encoder::verif_kani::avro_write_long_canonical at {"file": "/tmp/dev/pq1/kani/arrow-avro/writer/encoder.rs", "line": "56", "column": "9"})
// ---- generated tests ----
// playback not attempted (cap of 3 playbacks per run reached or --no-playback)
