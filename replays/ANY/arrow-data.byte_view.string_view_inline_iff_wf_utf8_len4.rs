// VIOLATION of ANY ()
// failed obligation(s) of unit arrow-data.byte_view.string_view_inline_iff_wf_utf8_len4 [bounded]
// contract: Contract (C08/C09): validate_string_view on one arbitrary INLINE view whose length field is the concrete value L (one harness per L; all other 96 bits — data and padding — arbitrary): Ok <=> wf_view /\ the L designated bytes are valid UTF-8 (independent validator `is_utf8`).
//   - assertion failed: ok == (wf_view(v, &e) && is_utf8(&b, start, len))  (in byte_view::verif_kani::string_view_inline_case::<4> at {"file": "/tmp/dev/own/kani/arrow-data/byte_view.rs", "line": "210", "column": "5"})
// ---- generated tests ----
// playback not attempted (cap of 3 playbacks per run reached or --no-playback)
