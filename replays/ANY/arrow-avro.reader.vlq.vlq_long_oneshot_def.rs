// VIOLATION of ANY ()
// failed obligation(s) of unit arrow-avro.reader.vlq.vlq_long_oneshot_def [complete]
// contract: Contract (C08, C17): VLQDecoder::long from the initial state on ANY byte string of <= 12 bytes, one call: Ok(Some(x))  iff the string starts with a well-formed varint (terminator within 10 bytes, 10th byte < 2); x is the zig-zag decoding of its value, exactly its bytes are consumed, state is reset; Err          iff the first 9 bytes all have the continuation bit and a 10th byte >= 2 follows — the decoder consumes the 9 bytes, resets its state, and never shifts by >= 64 (no panic); Ok(None)     otherwise (input exhausted inside the varint): everything consumed, state = the partial value (in_progress = value of the groups so far, shift = 7 * bytes). Stub: alloc::fmt::format.
//   - assertion failed: tag == 2 && used == 9  (in reader::vlq::verif_kani::vlq_long_oneshot_def at {"file": "/tmp/dev/pq1/kani/arrow-avro/reader/vlq.rs", "line": "104", "column": "13"})
// ---- generated tests ----
// playback not attempted (cap of 3 playbacks per run reached or --no-playback)
