// VIOLATION of ANY ()
// failed obligation(s) of unit arrow-avro.reader.cursor.cursor_varints [bounded]
// contract: Contract (C08, C17): the varint accessors on arbitrary bytes, against the format definition: read_vlq : Ok(v), advance k  iff the input starts with a well-formed varint (v, k); else Err, no move get_long : Ok(unzigzag(v)), advance k  under the same condition get_int  : Ok(unzigzag32(v)), advance k  iff additionally v <= u32::MAX (an over-wide value is an Err, not a silent truncation); Err otherwise, no move skip_long: Ok and advance k  iff get_long would succeed skip_int : Ok => get_int would succeed with the same k;  get_int Ok with k <= 5 => skip_int Ok. (For non-canonical encodings of 6..10 bytes whose value still fits 32 bits get_int accepts and skip_int rejects: recorded in REPORT as an observation, not asserted either way.)
//   - assertion failed: r.is_ok() == fits  (in reader::cursor::verif_kani::cursor_varints at {"file": "/tmp/dev/pq1/kani/arrow-avro/reader/cursor.rs", "line": "175", "column": "13"})
//   - assertion failed: *v as i64 == unzigzag(model.unwrap().0)  (in reader::cursor::verif_kani::cursor_varints at {"file": "/tmp/dev/pq1/kani/arrow-avro/reader/cursor.rs", "line": "177", "column": "17"})
//   - assertion failed: pos_of(&c, &a, n) == model.map_or(0, |m| m.1)  (in reader::cursor::verif_kani::cursor_varints at {"file": "/tmp/dev/pq1/kani/arrow-avro/reader/cursor.rs", "line": "180", "column": "13"})
//   - assertion failed: r.is_ok() == model.is_some()  (in reader::cursor::verif_kani::cursor_varints at {"file": "/tmp/dev/pq1/kani/arrow-avro/reader/cursor.rs", "line": "164", "column": "13"})
//   - assertion failed: *v == unzigzag(model.unwrap().0)  (in reader::cursor::verif_kani::cursor_varints at {"file": "/tmp/dev/pq1/kani/arrow-avro/reader/cursor.rs", "line": "166", "column": "17"})
//   - assertion failed: pos_of(&c, &a, n) == model.map_or(0, |m| m.1)  (in reader::cursor::verif_kani::cursor_varints at {"file": "/tmp/dev/pq1/kani/arrow-avro/reader/cursor.rs", "line": "168", "column": "13"})
//   - assertion failed: r.is_ok() == model.is_some()  (in reader::cursor::verif_kani::cursor_varints at {"file": "/tmp/dev/pq1/kani/arrow-avro/reader/cursor.rs", "line": "153", "column": "13"})
//   - assertion failed: *v == model.unwrap().0  (in reader::cursor::verif_kani::cursor_varints at {"file": "/tmp/dev/pq1/kani/arrow-avro/reader/cursor.rs", "line": "155", "column": "17"})
//   - assertion failed: pos_of(&c, &a, n) == model.map_or(0, |m| m.1)  (in reader::cursor::verif_kani::cursor_varints at {"file": "/tmp/dev/pq1/kani/arrow-avro/reader/cursor.rs", "line": "157", "column": "13"})
// ---- generated tests ----
// playback not attempted (cap of 3 playbacks per run reached or --no-playback)
