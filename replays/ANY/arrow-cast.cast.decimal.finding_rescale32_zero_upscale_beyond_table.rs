// VIOLATION of ANY ()
// failed obligation(s) of unit arrow-cast.cast.decimal.finding_rescale32_zero_upscale_beyond_table [bounded]
// contract: KNOWN FINDING F1 (registered so that the runner prints KNOWN-FINDING; FAILS on the current code). Contract (C13): the value 0 is representable at every scale, so rescaling 0 must give Some(0) for every valid type pair. The code reports overflow (None) as soon as the scale increase exceeds the multiplier table (documented as "treated as an overflow for upscaling"); the array kernel convert_to_bigger_or_equal_scale_decimal returns Err even in safe mode and even for empty/all-null input. Concrete input: rescale_decimal::<Decimal32Type,Decimal32Type>(0, 9, -5, 9, 9) == None, expected Some(0).
//   - assertion failed: r == Some(0)  (in cast::decimal::verif_kani::finding_rescale32_zero_upscale_beyond_table at {"file": "/verif/kani/arrow-cast/cast/decimal.rs", "line": "336", "column": "5"})
// ---- generated tests ----
// playback not attempted (cap of 3 playbacks per run reached or --no-playback)
