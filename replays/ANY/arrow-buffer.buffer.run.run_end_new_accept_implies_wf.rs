// VIOLATION of ANY ()
// failed obligation(s) of unit arrow-buffer.buffer.run.run_end_new_accept_implies_wf [bounded]
// contract: Contract (C09): `RunEndBuffer::new(run_ends, offset, len)` for n <= 4 arbitrary run ends and arbitrary usize offset / len: IF it returns THEN wf_run_ends(run_ends, offset, len) — strictly increasing, all > 0, last >= offset + len (no wrap-around) — and the accessors report the inputs. KNOWN FINDING F4 (fails on the unchanged tree): with len == 0 the constructor skips the `> 0` and the coverage test, e.g. run ends [-5, 3] with offset 0, len 0 are accepted although the doc comment lists "not strictly increasing values greater than zero" as a panic condition.
//   - assertion failed: wf_run_ends(&v, off, len)  (in buffer::run::verif_kani::run_end_new_case::<i16, 2, false> at {"file": "/tmp/dev/own/kani/arrow-buffer/buffer/run.rs", "line": "72", "column": "5"})
//   - assertion failed: wf_run_ends(&v, off, len)  (in buffer::run::verif_kani::run_end_new_case::<i16, 4, false> at {"file": "/tmp/dev/own/kani/arrow-buffer/buffer/run.rs", "line": "72", "column": "5"})
//   - assertion failed: wf_run_ends(&v, off, len)  (in buffer::run::verif_kani::run_end_new_case::<i16, 1, false> at {"file": "/tmp/dev/own/kani/arrow-buffer/buffer/run.rs", "line": "72", "column": "5"})
//   - assertion failed: wf_run_ends(&v, off, len)  (in buffer::run::verif_kani::run_end_new_case::<i16, 3, false> at {"file": "/tmp/dev/own/kani/arrow-buffer/buffer/run.rs", "line": "72", "column": "5"})
//   - assertion failed: wf_run_ends(&v, off, len)  (in buffer::run::verif_kani::run_end_new_case::<i16, 0, false> at {"file": "/tmp/dev/own/kani/arrow-buffer/buffer/run.rs", "line": "72", "column": "5"})
// ---- generated tests ----
// playback not attempted (cap of 3 playbacks per run reached or --no-playback)
