// VIOLATION of ANY ()
// failed obligation(s) of unit arrow-avro.reader.vlq.vlq_long_chunking_2way [complete]
// contract: a chunk is consumed completely unless it produced a value or an error
//   - assertion failed: d1.in_progress == d2.in_progress && d1.shift == d2.shift  (in reader::vlq::verif_kani::chunked::<1> at {"file": "/tmp/dev/pq1/kani/arrow-avro/reader/vlq.rs", "line": "163", "column": "5"})
// ---- generated tests ----
// playback not attempted (cap of 3 playbacks per run reached or --no-playback)
