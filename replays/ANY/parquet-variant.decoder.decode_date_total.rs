// VIOLATION of ANY ()
// failed obligation(s) of unit parquet-variant.decoder.decode_date_total [complete]
// contract: Contract (C08) — FAILS ON THE UNCHANGED TREE (new finding F5). decode_date on arbitrary bytes: returns (Ok or Err), never panics; Err when fewer than 4 bytes. On the unchanged code `DateTime::UNIX_EPOCH + Duration::days(d)` panics ("`DateTime + TimeDelta` overflowed") for every day count outside chrono's range (|d| beyond about 95.7 million days, e.g. d = i32::MAX); reachable from Variant::try_new (see REPORT for the native reproduction). Stub: alloc::fmt::format.
//   - This is a placeholder message; Kani doesn't support message formatted at runtime  (in std::option::expect_failed at {"file": "/home/runner/.rustup/toolchains/nightly-2026-08-21-x86_64-unknown-linux-gnu/lib/rustlib/src/rust/library/core/src/option.rs", "line": "2257", "column": "5"})
// ---- generated tests ----
// playback not attempted (cap of 3 playbacks per run reached or --no-playback)
