// VIOLATION of C08 (Untrusted bytes yield an error or valid data, never an invalid array)
// failed obligation(s) of unit parquet.arrow.buffer.offset_buffer.try_push_2_0_4 [bounded]
// contract: Contract (C08): OffsetBuffer::<i32>::try_push on arbitrary bytes, any sequence of three pushes of L1, L2, L3 bytes (lengths concrete per harness, contents and the validate flags symbolic): Err <=> validate_utf8 and the first byte of the value is a UTF-8 continuation byte (10xxxxxx) -- a code point split at a value boundary; an Err leaves offsets and values untouched (frame); after the sequence offsets = [0, prefix sums of the accepted lengths] (monotone, last = len(values)) and values is the concatenation of the accepted values.
//   - assertion failed: ! reject  (in arrow::buffer::offset_buffer::verif_kani::try_push_2_0_4 at {"file": "/verif/kani/parquet/arrow/buffer/offset_buffer.rs", "line": "60", "column": "1"})
//   - assertion failed: ! reject  (in arrow::buffer::offset_buffer::verif_kani::try_push_2_0_4 at {"file": "/verif/kani/parquet/arrow/buffer/offset_buffer.rs", "line": "60", "column": "1"})
// ---- generated tests ----
// playback not attempted (cap of 1 playbacks per run reached or --no-playback)
