// VIOLATION of C07 (Parquet statistics, page indexes and bloom filters never exclude present data)
// failed obligation(s) of unit parquet.column.writer.update_min_max_f16 [complete]
// contract: Contract (C07, Float16 column = FIXED_LEN_BYTE_ARRAY(2) + Float16): same NaN/totalOrder contract as update_min_max_f32 on the little-endian 16-bit patterns.
//   - assertion failed: n == spec_min && x == spec_max  (in column::writer::verif_kani::update_min_max_f16 at {"file": "/verif/kani/parquet/column/writer/mod.rs", "line": "431", "column": "5"})
// ---- generated tests ----
// playback not attempted (cap of 1 playbacks per run reached or --no-playback)
